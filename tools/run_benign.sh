#!/bin/bash
# False-alarm test: apply each behaviour-preserving refactoring under /verif/benign/<k>/patch.diff to a scratch worktree of
# /repo (never to /repo itself) and run every check against it; any VIOLATION or harness error is a defect of the machinery.
# usage: tools/run_benign.sh [cases-per-check]      (evidence files are restored afterwards)
N=${1:-12000}
WT=$(mktemp -d /tmp/benign-wt-XXXX)
git -C /repo worktree add --detach "$WT" HEAD -q || exit 3
cd /verif
for k in $(ls benign | sort -n); do
  (cd "$WT" && git checkout -- src && git apply /verif/benign/$k/patch.diff) || { echo "patch $k: APPLY FAILED"; continue; }
  for c in C01 C02 C03 C04 C05 C06 C07 C08 C10 C13 C14 C16 C17 C18 C20; do
    out=$(VERIF_REPO=$WT VERIF_EVIDENCE=0 ./check $c --cases $N --wall 40 2>&1 | grep -v "conda\|KNOWN-FINDING")
    echo "patch $k $c: violations=$(echo "$out" | grep -c '^VIOLATION') harness=$(echo "$out" | grep -c 'HARNESS') :: $(echo "$out" | grep 'rule=\|HARNESS' | head -2 | tr '\n' ' ' | cut -c1-300)"
  done
done
git -C /repo worktree remove --force "$WT"


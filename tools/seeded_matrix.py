#!/venv/bin/python
# -*- coding: utf-8 -*-
"""Run the quick check(s) named in each seeded/<id>/meta.json against a scratch worktree of /repo's HEAD with that seeded
change applied (and undone straight afterwards); writes seeded/RESULTS.json after every entry.  /repo itself is not touched.
Usage: tools/seeded_matrix.py [id ...]"""
import json
import os
import subprocess
import sys

HERE = os.path.dirname(os.path.dirname(os.path.abspath(__file__)))


def sh(cmd, **kw):
    return subprocess.run(cmd, shell=True, capture_output=True, text=True, **kw)


def main():
    ids = sys.argv[1:] or sorted(d for d in os.listdir(os.path.join(HERE, 'seeded')) if os.path.isdir(os.path.join(HERE, 'seeded', d)))
    path = os.path.join(HERE, 'seeded', 'RESULTS.json')
    results = json.load(open(path)) if os.path.exists(path) else {}
    tree = '/tmp/seeded-matrix-worktree'
    sh(f'git -C /repo worktree remove --force {tree}')
    added = sh(f'git -C /repo worktree add --detach {tree} HEAD')
    if added.returncode:
        print('cannot create the scratch worktree', added.stderr)
        return 3
    head = sh('git -C /repo rev-parse --short HEAD').stdout.strip()
    try:
        return run_all(ids, results, path, tree, head)
    finally:
        sh(f'git -C /repo worktree remove --force {tree}')


def run_all(ids, results, path, tree, head):
    for ident in ids:
        directory = os.path.join(HERE, 'seeded', ident)
        meta = json.load(open(os.path.join(directory, 'meta.json')))
        if meta.get('neutralised_by'):
            print(ident, 'neutralised:', meta['neutralised_by'][:60], flush=True)
            results[ident] = {prop: {'exit': None, 'neutralised': True, 'head': head} for prop in meta['checks']}
            continue
        applied = sh(f'git -C {tree} apply {directory}/patch.diff')
        if applied.returncode:
            print(ident, 'PATCH DOES NOT APPLY', applied.stderr)
            continue
        try:
            entry = {}
            for prop in meta['checks']:
                run = sh(f'cd {HERE} && VERIF_REPO={tree} VERIF_MAX_REPORTS=3 VERIF_EVIDENCE=0 ./check {prop} --tier quick', timeout=900)
                lines = [l for l in run.stdout.splitlines() if l.startswith('VIOLATION') or l.strip().startswith('rule=')]
                rules = sorted({l.strip().split(' occurrences')[0] for l in lines if l.strip().startswith('rule=')})
                entry[prop] = {'exit': run.returncode, 'violations': sum(l.startswith('VIOLATION') for l in lines), 'rules': rules,
                               'head': head}
                print(ident, prop, 'exit', run.returncode, rules, flush=True)
            results[ident] = entry
        finally:
            sh(f'git -C {tree} checkout -- .')
            json.dump(results, open(path, 'w'), indent=1, sort_keys=True)
    return 0


if __name__ == '__main__':
    sys.exit(main())

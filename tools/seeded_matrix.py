#!/venv/bin/python
# -*- coding: utf-8 -*-
"""Run the quick check(s) named in each seeded/<id>/meta.json against /repo with that seeded change applied (and undone
straight afterwards); writes seeded/RESULTS.json.  /repo must be clean.  Usage: tools/seeded_matrix.py [id ...]"""
import json
import os
import subprocess
import sys

HERE = os.path.dirname(os.path.dirname(os.path.abspath(__file__)))


def sh(cmd, **kw):
    return subprocess.run(cmd, shell=True, capture_output=True, text=True, **kw)


def main():
    ids = sys.argv[1:] or sorted(d for d in os.listdir(os.path.join(HERE, 'seeded')) if os.path.isdir(os.path.join(HERE, 'seeded', d)))
    path = os.path.join(HERE, 'seeded', 'RESULTS.json')
    results = json.load(open(path)) if os.path.exists(path) else {}
    for ident in ids:
        directory = os.path.join(HERE, 'seeded', ident)
        meta = json.load(open(os.path.join(directory, 'meta.json')))
        if sh('git -C /repo status --porcelain').stdout.strip():
            print('/repo is not clean')
            return 3
        applied = sh(f'git -C /repo apply {directory}/patch.diff')
        if applied.returncode:
            print(ident, 'PATCH DOES NOT APPLY', applied.stderr)
            continue
        try:
            entry = {}
            for prop in meta['checks']:
                run = sh(f'cd {HERE} && VERIF_MAX_REPORTS=3 ./check {prop} --tier quick', timeout=900)
                lines = [l for l in run.stdout.splitlines() if l.startswith('VIOLATION') or l.strip().startswith('rule=')]
                rules = sorted({l.strip().split(' occurrences')[0] for l in lines if l.strip().startswith('rule=')})
                entry[prop] = {'exit': run.returncode, 'violations': sum(l.startswith('VIOLATION') for l in lines), 'rules': rules}
                print(ident, prop, 'exit', run.returncode, rules, flush=True)
            results[ident] = entry
        finally:
            sh('git -C /repo checkout -- .')
            sh(f'git -C {HERE} checkout -- evidence')
    json.dump(results, open(path, 'w'), indent=1, sort_keys=True)
    return 0


if __name__ == '__main__':
    sys.exit(main())

#!/venv/bin/python
"""Which lines/branches of plumpy do the checks actually execute?  (a reach measure, not a verdict)

tools/coverage_probe.py [--cases N] [--props C01,C02,...]   -> prints, per plumpy source file, the statements never
executed by N cases of each check (systematic cases first, then seeded random ones), single process, under coverage.py.
"""
import argparse
import os
import sys

if os.environ.get('PYTHONHASHSEED') != '0':
    os.environ['PYTHONHASHSEED'] = '0'
    os.execv(sys.executable, [sys.executable] + sys.argv)

VERIF = os.path.dirname(os.path.dirname(os.path.abspath(__file__)))
sys.path.insert(0, VERIF)

import coverage  # noqa: E402

parser = argparse.ArgumentParser()
parser.add_argument('--cases', type=int, default=1500)
parser.add_argument('--props', default='C01,C02,C03,C04,C05,C06,C07,C08,C10,C13,C14,C16,C17,C18,C20')
parser.add_argument('--tier', default='quick')
args = parser.parse_args()

repo = os.environ.get('VERIF_REPO', '/repo')
cov = coverage.Coverage(branch=True, include=[os.path.join(repo, 'src', 'plumpy', '*')], data_file=None)
cov.start()
from simkit import runner  # noqa: E402

for prop in args.props.split(','):
    mod = runner.load_check(prop)
    systematic = mod.systematic(args.tier) if hasattr(mod, 'systematic') else []
    n_sys = len(systematic)
    # an even sample of the systematic part, then random cases
    picks = list(range(0, n_sys, max(1, n_sys // (args.cases // 2 or 1))))[: args.cases // 2]
    picks += list(range(n_sys, n_sys + args.cases - len(picks)))
    errors = 0
    for index in picks:
        try:
            case = runner.make_case(mod, args.tier, 1, index, n_sys, systematic)
            mod.run(case)
        except Exception as exc:  # noqa: BLE001
            errors += 1
    print(f'{prop}: {len(picks)} cases, {errors} harness errors', file=sys.stderr)
cov.stop()
cov.report(show_missing=True, skip_empty=True, file=sys.stdout)

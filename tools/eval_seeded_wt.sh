#!/bin/bash
# like eval_seeded.sh but runs the checks against the scratch worktree itself (VERIF_REPO), leaving /repo alone
WT=$1; N=$2; shift 2
D=$WT/SEEDED/$N
echo "##### $D"
/verif/tools/verify_seeded.sh $D 2>&1 | grep -v conda | grep "RESULT\|passed\|failed\|APPLY"
cd $WT && git apply $D/patch.diff || exit 3
cd /verif
for prop in "$@"; do
  out=$(VERIF_REPO=$WT VERIF_MAX_REPORTS=2 VERIF_EVIDENCE=0 ./check $prop --tier quick 2>&1 | grep -v "conda\|KNOWN-FINDING")
  echo "$prop: violations=$(echo "$out" | grep -c '^VIOLATION') harness=$(echo "$out" | grep -c 'HARNESS-ERROR') :: $(echo "$out" | grep 'rule=' | head -2 | tr '\n' ' ' | cut -c1-300)"
done
cd $WT && git checkout -- src
git -C /verif checkout -- evidence 2>/dev/null

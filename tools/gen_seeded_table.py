#!/venv/bin/python
# -*- coding: utf-8 -*-
"""Rewrite the table of seeded changes in DESIGN.md section 8 from seeded/*/meta.json (and seeded/RESULTS.json)."""
import glob
import json
import os

HERE = os.path.dirname(os.path.dirname(os.path.abspath(__file__)))


def main():
    path = os.path.join(HERE, 'DESIGN.md')
    text = open(path).read()
    results = {}
    results_path = os.path.join(HERE, 'seeded', 'RESULTS.json')
    if os.path.exists(results_path):
        results = json.load(open(results_path))
    rows = []
    for meta_path in sorted(glob.glob(os.path.join(HERE, 'seeded', '*', 'meta.json'))):
        meta = json.load(open(meta_path))
        caught = []
        for prop in meta['checks']:
            entry = results.get(meta['id'], {}).get(prop)
            if meta.get('neutralised_by'):
                caught.append(f'{prop} (until it was neutralised by a fix: see meta.json)')
            elif entry is None:
                caught.append(f'{prop} (?)')
            else:
                caught.append(f"{prop} ({'exit 1' if entry['exit'] == 1 else 'exit ' + str(entry['exit'])})")
        rows.append(f"| {meta['id']} | {meta['property']} | {meta['change']} | {meta['needs_to_manifest']} | "
                    f"{meta['first_result']} | {', '.join(caught)} |")
    header = '| id | property | change | needs, to manifest | first result | caught by (quick tier) |\n|---|---|---|---|---|---|\n'
    start = text.index(header)
    end = text.index('\n\n', start + len(header))
    text = text[:start] + header + '\n'.join(rows) + text[end:]
    open(path, 'w').write(text)
    print(f'{len(rows)} seeded changes in the table')


if __name__ == '__main__':
    main()

#!/venv/bin/python
# -*- coding: utf-8 -*-
"""Determinism self-test of the simulator.

For every check: N seeds are each run twice in one process, once more in reverse order (state leaking
from one case into the next would show), and once in fresh interpreters with other PYTHONHASHSEEDs.
All event-log digests per seed must be identical.  Exit 0 if so, 2 otherwise.
"""
import json
import os
import subprocess
import sys

HERE = os.path.dirname(os.path.dirname(os.path.abspath(__file__)))
sys.path.insert(0, HERE)


def digests(prop, tier, base, indices):
    from simkit import runner

    mod = runner.load_check(prop)
    systematic = mod.systematic(tier) if hasattr(mod, 'systematic') else []
    out = {}
    for index in indices:
        case = runner.make_case(mod, tier, base, index, len(systematic), systematic)
        result = mod.run(case)
        out[str(index)] = [result.digest().hex(), json.dumps(case, sort_keys=True, default=repr)]
    return out


def child(args):
    prop, tier, base, indices = args[0], args[1], int(args[2]), json.loads(args[3])
    print('DIGESTS ' + json.dumps(digests(prop, tier, base, indices)))


def spawn(prop, tier, base, indices, hashseed):
    env = dict(os.environ, PYTHONHASHSEED=str(hashseed))
    proc = subprocess.run([sys.executable, os.path.abspath(__file__), '--child', prop, tier, str(base), json.dumps(indices)],
                          capture_output=True, text=True, env=env, timeout=900)
    for line in proc.stdout.splitlines():
        if line.startswith('DIGESTS '):
            return json.loads(line[8:])
    raise RuntimeError(f'child failed: {proc.stdout[-2000:]}\n{proc.stderr[-3000:]}')


def main():
    import argparse
    from concurrent.futures import ThreadPoolExecutor

    parser = argparse.ArgumentParser()
    parser.add_argument('--seeds', type=int, default=60)
    parser.add_argument('--props', default='')
    parser.add_argument('--base', type=int, default=int(os.environ.get('VERIF_SEED', '0') or 0))
    args = parser.parse_args()
    with open(os.path.join(HERE, 'MANIFEST.json')) as handle:
        manifest = json.load(handle)
    props = [p for p in args.props.split(',') if p] or [c['property_id'] for c in manifest['checks']]
    failures = 0
    jobs = []
    with ThreadPoolExecutor(max_workers=16) as pool:
        for prop in props:
            # half of the indices fall into the systematic part, half are seeded random cases
            indices = list(range(0, args.seeds // 2)) + list(range(100000, 100000 + args.seeds - args.seeds // 2))
            doubled = indices + indices
            jobs.append((prop, indices, [
                pool.submit(spawn, prop, 'quick', args.base, doubled, 0),
                pool.submit(spawn, prop, 'quick', args.base, list(reversed(indices)), 0),
                pool.submit(spawn, prop, 'quick', args.base, indices, 12345),
                pool.submit(spawn, prop, 'quick', args.base, indices[::3], 777),
            ]))
        for prop, indices, futures in jobs:
            results = [f.result() for f in futures]
            bad = 0
            for index in indices:
                seen = {r[str(index)][0] for r in results if str(index) in r}
                cases = {r[str(index)][1] for r in results if str(index) in r}
                if len(seen) != 1 or len(cases) != 1:
                    bad += 1
                    print(f'NONDETERMINISTIC property={prop} index={index} digests={sorted(seen)} '
                          f'case_variants={len(cases)}')
            print(f'selftest {prop}: {len(indices)} seeds x (twice in-process, reversed order, 2 fresh interpreters '
                  f'with other PYTHONHASHSEED) -> {"ok" if not bad else str(bad) + " divergent"}', flush=True)
            failures += bad
    return 2 if failures else 0


if __name__ == '__main__':
    if len(sys.argv) > 1 and sys.argv[1] == '--child':
        child(sys.argv[2:])
        sys.exit(0)
    sys.exit(main())

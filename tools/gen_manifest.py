#!/venv/bin/python
# -*- coding: utf-8 -*-
"""Regenerate MANIFEST.json from the check modules (single source of truth for commands and levels)."""
import json
import os
import sys

HERE = os.path.dirname(os.path.dirname(os.path.abspath(__file__)))
sys.path.insert(0, HERE)

CHECKS = {
    'C01': ('exploration', 'seeded search over process programs x placements of pause/play/kill/resume/fail requests and late '
            'callbacks on a deterministic event loop; lifecycle-graph and terminal-finality monitors evaluated after every loop '
            'handle and every request', '5 C01', 'deterministic simulation: seeded schedule search, runtime lifecycle monitor'),
    'C02': ('exploration', 'seeded search over programs x request placements (kill while paused / in a step / from a listener); at '
            'termination all outcome accessors, the future, listener notifications, cleanups, closedness and the stepping task '
            'are compared with the outcome the program text denotes', '5 C02',
            'deterministic simulation: seeded schedule search, outcome-agreement oracle against a reference model'),
    'C03': ('fault_enumeration', 'for every seeded (program, scenario) the fault space {user-code site} x {occurrence of that site in the '
            'fault-free run} is enumerated completely, one injected fault per simulated run; oracle by site class (construction, '
            'listener, pause/play hook, late callback, everything else fatal)', '5 C03',
            'deterministic simulation: complete fault-site enumeration per seeded program and scenario'),
    'C04': ('exploration', 'seeded search over programs x sequences of up to K control requests containing a kill, at every loop '
            'position, in every order at one position, from listener notifications and from inside steps, plus future '
            'cancellation; every live end configuration is probed with a further kill', '5 C04',
            'deterministic simulation: seeded schedule search, kill-never-lost oracle with probing kill'),
    'C05': ('exploration', 'seeded search over programs x pause/play/resume placements; the run is compared step by step (arguments, '
            'status seen, outputs, result) with the uninterrupted run of the same program in the same simulator', '5 C05',
            'deterministic simulation: seeded schedule search, differential oracle against the uninterrupted run'),
    'C06': ('exploration', 'seeded search over every relative order and placement of wake-ups (resume calls, completion of awaited '
            'futures of a WorkChain) against pause/play; liveness decided by quiescence of the virtual-time loop after a final '
            'play', '5 C06', 'deterministic simulation: seeded schedule search, bounded-liveness (quiescence) oracle'),
    'C07': ('exploration', 'seeded search over process and workchain programs x pause/play/kill placements x medium x loader; at every '
            'state entry, paused point, creation and termination of the simulated run the bundle is sent through the medium, '
            'loaded, saved again and compared (canonical form), as are the public accessors of original and loaded process',
            '5 C07', 'deterministic simulation: checkpoint at every crash point, save/load/save differential oracle'),
    'C08': ('exploration', 'seeded search over programs and outlines x subsets of step boundaries as crash points x media; the '
            'instance is abandoned at each crash point and continued from the bundle in a fresh loop; executed steps, '
            'persisted trace, outputs, context and result are compared with the uninterrupted run', '5 C08',
            'deterministic simulation with crash/restart injection, differential oracle against the uninterrupted run'),
    'C10': ('exploration', 'seeded search over workchains handing 1-4 bare futures / launched children to the context (both '
            'registration ways, key re-assignment) x every completion order and placement with value / exception / child-kill '
            'outcomes; barrier, context content and failure propagation checked at the entry of the following step', '5 C10',
            'deterministic simulation: seeded completion-order search, barrier oracle'),
    'C13': ('exploration', 'seeded search over step chains with random arguments x crash points (checkpoint through deepcopy / '
            'pickle / YAML, abandon, restore in a fresh loop); recorded arguments and outcome compared with a reference model of '
            'the step commands', '5 C13', 'deterministic simulation with crash/restart injection, reference-model oracle'),
    'C14': ('exploration', 'seeded histories of persister operations over several live processes and tags drive InMemoryPersister, '
            'PicklePersister (real files) and a dictionary model while the processes keep running on the simulated loop; '
            'separate fault configuration with injected open() errors and torn writes under a relaxed, narrow oracle', '5 C14',
            'deterministic simulation: seeded operation histories against a reference model, disk-fault injection, restart'),
    'C16': ('exploration', 'seeded search over programs x control-message sequences (RPC via both plumpy controllers, broadcasts) on '
            'a simulated transport with delay, duplication and reordering; quiescent deliveries are compared with a twin run '
            'making the direct calls, timed deliveries with the recorded return value of the handler; announcements are '
            'compared with completed transitions; one run per (transition, tolerated broadcast error)', '5 C16',
            'deterministic simulation: simulated transport with message faults, twin-run differential oracle, fault enumeration '
            'over broadcast failures'),
    'C17': ('exploration', 'seeded histories of launcher tasks (create/launch/continue/execute/bogus, persist/nowait/tag flags, '
            'snapshots, worker restarts) against no / in-memory / pickle persister and default / custom loader, through '
            'LoopCommunicator on the simulated transport or by direct call; replies, persister content and executed steps '
            'are compared with a reference model', '5 C17',
            'deterministic simulation: seeded task histories against a reference model, restart injection'),
    'C18': ('exploration', 'seeded search over 2-4 concurrently stepping processes with async steps of seeded virtual durations, '
            'launched children, re-entrant child.execute() (nested loop runs), callbacks and hooks; every piece of generated '
            'user code probes Process.current(), a sampler checks it between all handles of outer and nested loops', '5 C18',
            'deterministic simulation: virtual-time interleaving search with in-code probes'),
    'C20': ('exploration', 'seeded search over adapter x nesting depth x outcome (value/exception/cancellation) at a chosen level x '
            'every completion order and loop placement of the levels; the adapters (create_task, plum_to_kiwi_future + '
            'unwrap_kiwi_future, the _schedule_rpc reply reached through message_receive, CancellableAction) run on the '
            'simulated loop, their final futures are compared with the innermost outcome reached', '5 C20',
            'deterministic simulation: seeded completion-order search over future chains'),
}

NOT_APPLICABLE = [
    ('C09', 'pure function of outline and scripted values: a WorkChain without awaitables runs inside one loop callback; no '
            'schedule, clock, fault or crash to simulate (restart/pause around outline steps are covered by C08/C05)'),
    ('C11', 'construction-time input validation is synchronous and pure; nothing for a scheduler or fault injector to vary'),
    ('C12', 'output validation and the success flag are a pure function of output spec and emission sequence'),
    ('C15', 'expose_inputs/outputs is a pure function of two port trees and a rule set'),
    ('C19', 'Savable round trip is a pure function of class shape, member values and loader configuration (process-level round '
            'trips at crash points are C07)'),
]

PENDING = {
}


def main():
    checks = []
    for prop in sorted(CHECKS):
        level, text, ref, technique = CHECKS[prop]
        if not os.path.exists(os.path.join(HERE, 'checks', prop.lower() + '.py')):
            continue
        checks.append({
            'property_id': prop,
            'quick_cmd': f'./check {prop} --tier quick',
            'thorough_cmd': f'./check {prop} --tier thorough',
            'evidence_file': f'/verif/evidence/{prop}.json',
            'replay_cmd_template': f'./check {prop} --replay {{path}}',
            'engine': 'simkit',
            'level_claimed': {'category': level, 'text': text, 'design_ref': f'DESIGN.md section {ref}'},
            'level_note': 'sampled, not exhaustive: a clean batch is evidence, not proof. Trusted base: simkit.loop.SimLoop '
                          'reproduces asyncio callback semantics (it reuses BaseEventLoop call_soon/call_at/Handle and the '
                          'pure-Python Task/Future, as nest_asyncio does in production); oracles in checks/; the ready queue is '
                          'never permuted (FIFO is an asyncio guarantee).',
            'technique': technique,
        })
    claimed = {c['property_id'] for c in checks}
    not_applicable = [{'property_id': p, 'reason': r} for p, r in NOT_APPLICABLE]
    for prop, reason in sorted(PENDING.items()):
        if prop not in claimed:
            not_applicable.append({'property_id': prop, 'reason': reason})
    manifest = {
        'version': 1,
        'setup_cmd': '/venv/bin/python tools/selftest.py --seeds 24',
        'hooks': {
            'guard': 'PLUMPY_VERIF',
            'enable': 'no source hooks exist: the simulator uses seams plumpy already has (event loop argument, '
                      'communicator, persister, module-level time/uuid, ProcessListener, state event callbacks); '
                      'PLUMPY_VERIF is reserved and unused',
            'baseline_off_cmd': 'cd /repo && /venv/bin/python -m pytest -q -p no:cacheprovider --timeout=900 '
                                '--continue-on-collection-errors',
            'source_commits': [],
            'add_only': True,
        },
        'engines': [{
            'name': 'simkit',
            'path': '/verif/simkit',
            'serves_properties': sorted(claimed),
            'kind_free_text': 'deterministic simulator for asyncio: virtual-time single-handle event loop (SimLoop), seeded '
                              'environment schedules, generated process programs, crash/restart through serialisation '
                              'media, ddmin minimiser, replay files',
        }],
        'checks': checks,
        'not_applicable': not_applicable,
        'notes': 'exit codes: 0 held, 1 VIOLATION, 2 harness error (never a pass). Genuine defects found and repaired are '
                 'listed in known_findings.json (status fixed) with their minimised replays under findings/.',
    }
    import jsonschema

    with open('/root/.vp/MANIFEST.schema.json') as handle:
        jsonschema.validate(manifest, json.load(handle))
    with open(os.path.join(HERE, 'MANIFEST.json'), 'w') as handle:
        json.dump(manifest, handle, indent=1)
    print(f'MANIFEST.json: {len(checks)} checks, {len(not_applicable)} not claimed')


if __name__ == '__main__':
    main()

#!/bin/bash
# run checks of /verif against /repo with a seeded patch applied, then undo it.
# usage: tools/try_seeded.sh <patch.diff> [--cases N] <Cnn> [<Cnn>...]
set -u
P=$(realpath "$1"); shift
EXTRA=""
if [ "${1:-}" = "--cases" ]; then EXTRA="--cases $2"; shift 2; fi
cd /repo || exit 3
if [ -n "$(git status --porcelain)" ]; then echo "/repo is not clean"; exit 3; fi
git apply "$P" || { echo "PATCH DOES NOT APPLY"; exit 3; }
trap 'git -C /repo checkout -- . ' EXIT
cd /verif
for prop in "$@"; do
  out=$(VERIF_MAX_REPORTS=2 ./check $prop --tier quick $EXTRA 2>&1 | grep -v conda)
  code=$?
  viol=$(echo "$out" | grep -c '^VIOLATION')
  harness=$(echo "$out" | grep -c 'HARNESS-ERROR')
  echo "$prop: violations=$viol harness_errors=$harness :: $(echo "$out" | grep -A1 '^VIOLATION' | grep 'rule=' | head -2 | tr '\n' ' ')"
done
git -C /verif checkout -- evidence 2>/dev/null

#!/bin/bash
# verify a seeded defect in a fresh scratch worktree: tests pass with the patch, demo fails with it and passes without.
# usage: tools/verify_seeded.sh <dir with patch.diff and demo.py>
set -u
D=$(realpath "$1")
WT=$(mktemp -d /tmp/verify-seeded-XXXX)
rmdir "$WT"
git -C /repo worktree add -q --detach "$WT" HEAD || exit 3
cd "$WT"
echo "== demo on unmodified tree"
PYTHONPATH=$WT/src timeout 120 /venv/bin/python "$D/demo.py" > /tmp/verify-demo-clean.log 2>&1; clean=$?
echo "exit $clean"
git apply "$D/patch.diff" || { echo "PATCH DOES NOT APPLY"; git -C /repo worktree remove --force "$WT"; exit 3; }
echo "== changed lines"; git diff --stat | tail -1
echo "== test suite with the patch"
PYTHONPATH=$WT/src timeout 900 /venv/bin/python -m pytest -q -p no:cacheprovider --timeout=120 --deselect tests/rmq 2>&1 | tail -1
echo "== demo with the patch"
PYTHONPATH=$WT/src timeout 120 /venv/bin/python "$D/demo.py" > /tmp/verify-demo-patched.log 2>&1; patched=$?
echo "exit $patched"; tail -3 /tmp/verify-demo-patched.log
cd /
git -C /repo worktree remove --force "$WT"
echo "RESULT clean_exit=$clean patched_exit=$patched"

#!/bin/bash
# usage: tools/eval_seeded.sh <worktree> <n> <Cnn> [more Cnn]   -> verifies SEEDED/<n> and runs the checks against it
WT=$1; N=$2; shift 2
D=$WT/SEEDED/$N
echo "##### $D"
/verif/tools/verify_seeded.sh $D 2>&1 | grep -v conda | grep "RESULT\|passed\|failed\|APPLY"
/verif/tools/try_seeded.sh $D/patch.diff "$@"

#!/venv/bin/python
"""Record an evaluated seeded change: tools/record_seed.py <worktree>/SEEDED/<n> <id> <property> <first_result> <change> <needs> [<strengthening>]"""
import json, pathlib, shutil, sys

src, ident, prop, first, change, needs = sys.argv[1:7]
strengthening = sys.argv[7] if len(sys.argv) > 7 else ''
round_no = {'a': 1, 'b': 2, 'c': 3, 'd': 4, 'e': 5, 'f': 6, 'g': 7, 'h': 8, 'i': 9, 'j': 10, 'k': 11, 'l': 12, 'm': 13, 'n': 14}[ident.split('-')[1][0]]
dest = pathlib.Path('/verif/seeded') / ident
dest.mkdir(parents=True, exist_ok=True)
for name in ('patch.diff', 'demo.py', 'notes.md'):
    shutil.copy(pathlib.Path(src) / name, dest / name)
meta = {
    'id': ident, 'property': prop, 'change': change, 'needs_to_manifest': needs, 'checks': [prop],
    'source': f'written by an independent sub-agent (round {round_no}: told which sites earlier rounds had used) that saw only '
              'the property text and a scratch worktree of /repo (nothing from /verif)',
    'confirmed': 'tools/verify_seeded.sh in a fresh scratch worktree: patch applies; test suite 186 passed with the patch; '
                 'demo.py exits 0 without and 1 with the patch',
    'first_result': first,
}
if strengthening:
    meta['strengthening'] = strengthening
(dest / 'meta.json').write_text(json.dumps(meta, indent=1) + '\n')
print('recorded', ident)

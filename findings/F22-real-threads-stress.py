import asyncio, threading, time, sys, random, concurrent.futures
import kiwipy, plumpy
from plumpy import futures

TIMEOUT = 3.0
problems = []

class P(plumpy.Process):
    async def run(self):
        for _ in range(3):
            await asyncio.sleep(0.002)
        return plumpy.Wait(self.after, 'w')
    def after(self, *a):
        return 1

def final(f):
    f = futures.unwrap_kiwi_future(f)
    try:
        return ('ok', f.result(timeout=TIMEOUT))
    except concurrent.futures.TimeoutError:
        return ('TIMEOUT',)
    except Exception as e:
        return ('exc', type(e).__name__, str(e)[:80])

def comm_thread(loop, comm, raw, procs, wrap):
    rng = random.Random(1)
    ctrl = plumpy.RemoteProcessThreadController(comm)
    try:
        for round_ in range(60):
            proc = procs[round_ % len(procs)]
            pid = proc.pid
            what = rng.choice(['status', 'pause', 'play', 'pause', 'play', 'status'])
            if what == 'status':
                r = final(ctrl.get_status(pid))
            elif what == 'pause':
                r = final(ctrl.pause_process(pid, 'm'))
            else:
                r = final(ctrl.play_process(pid))
            if r[0] == 'TIMEOUT':
                problems.append((round_, what, r))
            if rng.random() < 0.5:
                time.sleep(rng.choice([0, 0.001, 0.01]))
        for proc in procs:
            r = final(ctrl.kill_process(proc.pid, 'end'))
            if r[0] == 'TIMEOUT':
                problems.append(('kill', r))
    except BaseException as e:
        import traceback; traceback.print_exc(); problems.append(('died', repr(e)))
    finally:
        loop.call_soon_threadsafe(loop.stop)

def main(wrap):
    loop = asyncio.new_event_loop(); asyncio.set_event_loop(loop)
    raw = kiwipy.LocalCommunicator()
    comm = plumpy.wrap_communicator(raw, loop) if wrap else raw
    procs = [P(pid=f'p{i}', loop=loop, communicator=comm) for i in range(3)]
    for p in procs:
        loop.create_task(p.step_until_terminated())
    t = threading.Thread(target=comm_thread, args=(loop, raw, raw, procs, wrap), daemon=True); t.start()
    loop.run_forever(); t.join(5)
    print('wrap' if wrap else 'direct', 'problems:', problems[:5], 'states', [p.state.value for p in procs])
    return not problems

ok = main(sys.argv[1] == 'wrap')
sys.exit(0 if ok else 1)

# -*- coding: utf-8 -*-
"""C20 demonstration: the adapters between the event loop and communicator threads must carry every outcome across.

The event loop runs (idle) in the main thread.  A second thread plays the part of a communicator thread, the way
kiwipy's RabbitMQ communicator delivers messages: it schedules coroutines on the loop with
`plumpy.futures.create_task`, mirrors the loop futures with `plumpy.communications.plum_to_kiwi_future`, unwraps
nested futures with `plumpy.futures.unwrap_kiwi_future` and sends RPCs to a subscriber registered through
`plumpy.wrap_communicator`.  Every outcome (result, exception, nested result to depth 3, cancellation of the innermost
future) has to arrive in the communicator thread, well within the timeout.

Exits 0 if every outcome arrives, 1 (printing what was lost) otherwise.
"""

import asyncio
import concurrent.futures
import sys
import threading
import time

import kiwipy

import plumpy
from plumpy import communications, futures

TIMEOUT = 3.0
problems = []


def describe(kiwi_future):
    """Wait for the (fully unwrapped) outcome of a kiwipy future in the calling thread and describe it"""
    unwrapped = futures.unwrap_kiwi_future(kiwi_future)
    try:
        return ('result', unwrapped.result(timeout=TIMEOUT))
    except concurrent.futures.CancelledError:
        return ('cancelled',)
    except concurrent.futures.TimeoutError:
        return ('NOTHING ARRIVED within %.0fs' % TIMEOUT,)
    except Exception as exc:
        return ('exception', type(exc).__name__, exc.args)


def expect(what, got, expected):
    if got != expected:
        problems.append(f'{what}: expected {expected!r}, got {got!r}')
        print(f'MISMATCH {what}:\n    expected {expected!r}\n    got      {got!r}')
    else:
        print(f'ok       {what}: {got!r}')


def communicator_thread(loop, communicator):
    try:
        time.sleep(0.5)  # by now the loop has nothing left to do and sleeps in its selector

        async def answer():
            return 42

        async def fail():
            raise ValueError('no answer')

        async def nested():
            # A coroutine whose result is a loop future, which resolves to another loop future, which resolves to 'deep'
            inner, innermost = loop.create_future(), loop.create_future()
            loop.call_later(0.05, inner.set_result, innermost)
            loop.call_later(0.10, innermost.set_result, 'deep')
            return inner

        async def nested_cancelled():
            inner, innermost = loop.create_future(), loop.create_future()
            loop.call_later(0.05, inner.set_result, innermost)
            loop.call_later(0.10, innermost.cancel)
            return inner

        for what, coro, expected in [
            ('create_task: result', answer, ('result', 42)),
            ('create_task: exception', fail, ('exception', 'ValueError', ('no answer',))),
            ('create_task: future resolving to futures, depth 3', nested, ('result', 'deep')),
            ('create_task: innermost future cancelled', nested_cancelled, ('cancelled',)),
        ]:
            mirror = communications.plum_to_kiwi_future(futures.create_task(coro, loop))
            expect(what, describe(mirror), expected)

        # The same through a wrapped communicator: the subscriber is scheduled on the loop, the reply comes back here
        expect('rpc through wrap_communicator', describe(communicator.rpc_send('adder', 41)), ('result', 42))
        expect(
            'rpc through wrap_communicator, failing subscriber',
            describe(communicator.rpc_send('failing', None)),
            ('exception', 'ValueError', ('no answer',)),
        )
    except BaseException as exc:  # noqa: BLE001
        import traceback

        traceback.print_exc()
        problems.append(f'communicator thread died: {type(exc).__name__}: {exc}')
    finally:
        loop.call_soon_threadsafe(loop.stop)


def main():
    loop = asyncio.new_event_loop()
    asyncio.set_event_loop(loop)
    communicator = plumpy.wrap_communicator(kiwipy.LocalCommunicator(), loop)

    async def adder(_comm, msg):
        await asyncio.sleep(0.01)
        return msg + 1

    async def failing(_comm, msg):
        raise ValueError('no answer')

    communicator.add_rpc_subscriber(adder, 'adder')
    communicator.add_rpc_subscriber(failing, 'failing')

    thread = threading.Thread(target=communicator_thread, args=(loop, communicator), daemon=True)
    thread.start()
    watchdog = threading.Timer(60, lambda: (print('FAILED: hung'), sys.stdout.flush(), __import__('os')._exit(2)))
    watchdog.daemon = True
    watchdog.start()
    loop.run_forever()
    thread.join(10)

    if problems:
        print(f'\nFAILED: {len(problems)} outcome(s) did not make it from the event loop to the communicator thread')
        sys.exit(1)
    print('OK: every outcome arrived in the communicator thread')
    sys.exit(0)


if __name__ == '__main__':
    main()

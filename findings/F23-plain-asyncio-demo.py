import asyncio, plumpy
class P(plumpy.Process):
    async def run(self):
        await asyncio.sleep(10)
        return 1
async def main():
    p = P()
    task = asyncio.ensure_future(p.step_until_terminated())
    await asyncio.sleep(0.01)
    k1 = p.kill('first')            # requested while the step is in flight
    print('kill ->', k1)
    task.cancel()                   # whoever was running the process gives up (wait_for timeout, shutdown...)
    await asyncio.sleep(0.01)
    print('task cancelled:', task.cancelled(), 'state', p.state, 'killing', p._killing)
    k2 = p.kill('second')
    print('second kill ->', k2, 'state', p.state)
    await asyncio.sleep(0.01)
    print('state', p.state, 'terminated', p.has_terminated())
asyncio.run(main())

# -*- coding: utf-8 -*-
"""C06 - a wake-up is never lost to a concurrent pause or interruption.

Oracle clauses:
  lost_wakeup      a waiting process that has been resumed, or whose awaited futures have all completed, is still
                   WAITING when it is playing and the loop is quiescent
  resume_value     the value of the FIRST resume() of a wait is delivered exactly once to the continuation
  resume_raises    resume() on a WAITING process raises
  ctx_missing      a completed awaitable is not found in the context when the next step starts
  control_raises   a pause()/play() interleaved with the wake-up raises
"""
from checks import common
from simkit import programs
from simkit.loop import TickLimit
from simkit.runner import Result

PROPERTY = 'C06'
LEVEL = 'exploration'
RULE = (
    'cases = (a) Wait-based process programs x schedules of resume/pause/play requests, (b) workchains whose first step '
    'hands 1-3 bare futures to the context x schedules of future completions and pause/play requests; requests are '
    'placed before any loop handle, several at one position in every relative order, or at quiescence; every run is '
    'completed by a final play and by completing what was not yet completed.  Systematic part: every sequence of <=3 '
    '(quick) / <=4 (thorough) events at every position of the canonical wait programs.  Non-trivial = a wake-up or a '
    'pause/play landed while the process was in a waiting step, paused, or with a request pending; distinct = '
    'distinct event-log digest.'
)
BUDGET = {'quick': (150000, 55), 'thorough': (4_000_000, 600)}
COMPONENTS = dict(common.COMPONENTS, real=common.COMPONENTS['real'] + ['plumpy.workchains (WorkChain, Waiting with awaitables, to_context)'])
ASSUMPTIONS = ['FIFO ready queue', 'awaited futures complete with values (failing items are C10)']
EXPECTED_COUNTERS = ['probe:awaited_child', 'probe:resume_on_interrupted_wait', 'probe:complete_while_paused', 'probe:pause_after_wakeup_same_position',
                     'probe:resume_while_paused', 'probe:wakeup_while_pause_pending']
PROGRAM_CFG = {'max_steps': 4, 'p_wait': 0.75, 'rets': ['value', 'stop'], 'effects': ['out', 'status'], 'p_async': 0.35}
_sys_cache = {}


def wc_program(n_futures, via, child_durations=()):
    """A: hands n bare futures (and children that finish by themselves after a virtual duration) to the context (returning
    ToContext, calling to_context, or both); B: next step."""
    effects, items = [], {}
    arefs = [(f'k{i}', {'fut': i}) for i in range(n_futures)] + [(f'c{j}', {'child': j}) for j in range(len(child_durations))]
    for i, (key, aref) in enumerate(arefs):
        how = via if via != 'both' else ('call' if i % 2 == 0 else 'ret')
        if how == 'call':
            effects.append({'e': 'toctx', 'key': key, 'ref': aref})
        else:
            items[key] = aref
    ret = {'t': 'tocontext', 'items': items} if items else None
    children = [{'kind': 'process', 'inputs': None,
                 'steps': [{'async': True, 'awaits': [d], 'effects': [[{'e': 'out', 'k': 'r', 'v': j}], []], 'ret': {'t': 'value', 'v': j}}]}
                for j, d in enumerate(child_durations)]
    return {'kind': 'workchain', 'outline': [['s', 'A'], ['s', 'B']],
            'steps': {'A': {'effects': effects, 'ret': ret}, 'B': {'effects': [], 'ret': None}}, 'preds': {}, 'children': children}


def systematic(tier):
    if tier in _sys_cache:
        return _sys_cache[tier]
    cases = []
    max_len = 3 if tier == 'quick' else 4
    canon = programs.canonical_programs()
    for name in ('wait1', 'wait2'):
        program = canon[name]
        ticks, _, _ = common.dry_run(program)
        for schedule in common.systematic_schedules(['resume', 'pause', 'play'], list(range(0, ticks + 1)), max_len):
            if not any(a['act'] == 'resume' for a in schedule) or not any(a['act'] == 'pause' for a in schedule):
                continue
            cases.append({'program': program, 'schedule': schedule, 'opts': {}, 'origin': f'systematic:{name}'})
        # alternating pause/play bursts at one position (each interruption still in flight when the next request arrives),
        # with the wake-up before, after or one handle later
        for pos in range(0, ticks + 1):
            for repeats in (1, 2, 3):
                for tail in ((), ('pause',), ('pause', 'play')):
                    burst = ['pause', 'play'] * repeats + list(tail)
                    for where in ('before', 'after', 'next'):
                        schedule = [{'act': kind, 'at': pos} for kind in burst]
                        wake = {'act': 'resume', 'at': pos + (1 if where == 'next' else 0)}
                        schedule = [wake] + schedule if where == 'before' else schedule + [wake]
                        cases.append({'program': program, 'schedule': schedule, 'opts': {}, 'origin': f'systematic:{name}:burst'})
    import itertools
    for n_futures, via in ((1, 'ret'), (2, 'call'), (2, 'both')):
        program = wc_program(n_futures, via)
        alphabet = [('complete', i) for i in range(n_futures)] + [('pause', None), ('play', None)]
        for length in range(2, max_len + 1):
            for combo in itertools.product(alphabet, repeat=length):
                kinds = [c[0] for c in combo]
                if 'pause' not in kinds or 'complete' not in kinds:
                    continue
                if len({c for c in combo if c[0] == 'complete'}) != kinds.count('complete'):
                    continue
                for pos in range(0, 6):
                    for split in (False, True):
                        schedule = []
                        for j, (kind, arg) in enumerate(combo):
                            action = {'act': kind, 'at': pos + (1 if split and j > 0 else 0)}
                            if kind == 'complete':
                                action.update(fut=arg, how='value', v=f'v{arg}')
                            schedule.append(action)
                        cases.append({'program': program, 'schedule': schedule, 'opts': {}, 'origin': f'systematic:wc{n_futures}{via}'})
    _sys_cache[tier] = cases
    return cases


def random_case(rng, tier):
    max_actions = 5 if tier == 'quick' else 7
    if rng.random() < 0.5:
        program = programs.gen_process_program(rng, PROGRAM_CFG)
        ticks, notify, _ = common.dry_run(program)
        schedule = common.gen_schedule(rng, ['resume', 'resume', 'pause', 'play'], max_actions, ticks, notify,
                                       p_listener=0.2 if rng.random() < 0.5 else 0.0, p_same=0.6, must=['resume'])
    else:
        n_futures = rng.randint(1, 3)
        durations = [rng.choice([0, 0.5, 1]) for _ in range(rng.choice([0, 0, 1, 2]))]
        program = wc_program(n_futures, rng.choice(['ret', 'call', 'both']), durations)
        ticks, notify, _ = common.dry_run(program)
        schedule = common.gen_schedule(rng, ['complete', 'complete', 'pause', 'play'], max_actions, ticks + 2, notify,
                                       p_listener=0.2 if rng.random() < 0.5 else 0.0, p_same=0.6, must=['complete'])
        order = list(range(n_futures))
        rng.shuffle(order)
        nxt = 0
        for action in schedule:
            if action['act'] == 'complete':
                action.update(fut=order[nxt % n_futures], how='value', v=f'v{order[nxt % n_futures]}')
                nxt += 1
    if rng.random() < 0.12:
        # whoever steps the process gives up while it sits paused (the stepping task is cancelled); it is played and picked up
        # again later: the wake-up it got in between must not be lost
        schedule.append({'act': 'cancel_stepper', 'only_if_paused': True, 'at': rng.randint(0, ticks + 3)})
    for action in schedule:
        # pauses are also requested from inside the listener notifications of state transitions (e.g. of the very
        # transition into WAITING); wake-ups and plays stay between loop callbacks
        if 'on' in action and (action['act'] != 'pause' or action['on'][0] in ('played', 'paused')):
            action.pop('on')
            action['at'] = rng.randint(0, ticks + 1)
    opts = common.with_communicator(rng, {})
    return {'program': program, 'schedule': schedule, 'opts': opts}


def shrink(case):
    if case['program'].get('kind') == 'workchain':
        import copy
        for i in range(len(case['schedule'])):
            candidate = copy.deepcopy(case)
            del candidate['schedule'][i]
            yield candidate
        for i, action in enumerate(case['schedule']):
            if action.get('at', 0) > 0:
                candidate = copy.deepcopy(case)
                candidate['schedule'][i]['at'] = action['at'] - 1
                yield candidate
    else:
        yield from common.shrink_control(case)


def run(case):
    result = Result()
    engine = common.new_engine(case, record_hooks=False)
    try:
        if not engine.start():
            raise RuntimeError(f'construction failed: {engine.construct_error!r}')
        try:
            engine.run_schedule()
            drive = engine.drive_out()
        except TickLimit as exc:
            result.violate('lost_wakeup', 'runaway', f'the run does not come to rest: {exc}')
        else:
            _oracle(engine, result, case, drive)
        common.finish_result(engine, result)
        result.counters['loop_contexts_from_completion_callbacks'] += sum(
            1 for c in engine.loop.exc_contexts if 'InvalidStateError' in repr(c.get('exception')))
        result.nontrivial = common.nontrivial_by_context(engine)
    finally:
        common.close_engine(engine)
    return result


def _oracle(engine, result, case, drive):
    world, proc = engine.world, engine.proc
    events = world.events
    is_wc = case['program'].get('kind') == 'workchain'

    last_tick_kind = {}
    for record in engine.records:
        kind = record.action['act']
        if not record.pre_live:
            continue
        if kind == 'resume' and record.pre_state == 'waiting':
            if 'pausing' in record.context:
                result.counters['probe:wakeup_while_pause_pending'] += 1
                result.counters['probe:resume_on_interrupted_wait'] += 1
            if 'paused' in record.context:
                result.counters['probe:resume_while_paused'] += 1
            if record.raised is not None:
                result.violate('resume_raises', f'{type(record.raised).__name__}@{record.context}',
                               f'resume() raised {record.raised!r} in context {record.context}')
        if kind in ('pause', 'play') and record.raised is not None:
            # "regardless of how the wake-up is interleaved with pause, play and other control requests": a request that
            # blows up because a wake-up got there first is that interleaving going wrong
            result.violate('control_raises', f'{kind}:{type(record.raised).__name__}@{record.context}',
                           f'{kind}() raised {record.raised!r} in context {record.context}')
        if kind == 'complete' and record.result != 'skipped':
            if 'paused' in record.context:
                result.counters['probe:complete_while_paused'] += 1
            if 'pausing' in record.context:
                result.counters['probe:wakeup_while_pause_pending'] += 1
        if kind == 'pause' and last_tick_kind.get(record.tick) in ('resume', 'complete'):
            result.counters['probe:pause_after_wakeup_same_position'] += 1
        last_tick_kind[record.tick] = kind

    # "it continues once it is playing": a process that has been played stays un-paused until a pause is requested again
    last_control = None
    for event in events:
        if event[0] == 'call' and event[2] in ('pause', 'play'):
            last_control = event[2]
        elif event[0] == 'sample' and event[2] and not event[3] and last_control == 'play':
            result.violate('lost_wakeup', 'paused_again_after_play', 'the process is paused although the last request was a play: '
                                                                     'the wake-up cannot take effect')
            break

    if drive == 'lost_wakeup':
        pending = [type(c.get('exception')).__name__ for c in engine.loop.exc_contexts]
        result.violate('lost_wakeup', 'workchain' if is_wc else 'process',
                       f'woken up (resumed / all awaitables completed) but still WAITING while playing at '
                       f'quiescence; loop exception contexts: {pending}')
    elif drive != 'terminated':
        result.violate('lost_wakeup', f'{drive}', f'the run could not be completed: {drive}')

    if not is_wc:
        # value of the first resume of every resumed wait is delivered exactly once
        resumed_waits = sorted({r.wait_no for r in engine.records if r.action['act'] == 'resume'
                                and r.pre_state == 'waiting' and r.pre_live and r.raised is None})
        for wait_no in resumed_waits:
            first = [e for e in events if e[0] == 'step' and e[3] == [['rv', wait_no, 0]]]
            others = [e for e in events if e[0] == 'step' and len(e[3]) == 1 and isinstance(e[3][0], list)
                      and len(e[3][0]) == 3 and e[3][0][0] == 'rv' and e[3][0][1] == wait_no and e[3][0][2] != 0]
            if others:
                result.violate('resume_value', 'later_value', f'continuation of wait {wait_no} received the value of a '
                                                              f'later resume: {others[0][3]}')
            if len(first) > 1:
                result.violate('resume_value', 'twice', f'value of the first resume of wait {wait_no} delivered {len(first)} times')
            if len(first) == 0 and drive == 'terminated' and not others:
                result.violate('resume_value', 'never', f'value of the first resume of wait {wait_no} was never delivered')
    else:
        b_entries = [e for e in events if e[0] == 'wstep' and e[2] == 'B']
        if drive == 'terminated' and proc.state.value == 'finished':
            if len(b_entries) != 1:
                result.violate('lost_wakeup', 'B_count', f'step after the barrier ran {len(b_entries)} times')
            else:
                view = b_entries[0][3]
                for index, children in world.child_by_index.items():
                    child = children[-1]
                    result.counters['probe:awaited_child'] += 1
                    if child.has_terminated() and child.state.value == 'finished' \
                            and view.get(f'c{index}') != programs.freeze(child.outputs):
                        result.violate('ctx_missing', 'child', f'ctx[c{index}] is {view.get(f"c{index}")!r} at the next step, the '
                                                               f'child finished with {child.outputs!r}')
                for ident, future in world.futures.items():
                    if future.done() and not future.cancelled() and view.get(f'k{ident}') != future.result():
                        result.violate('ctx_missing', 'value', f'ctx[k{ident}] is {view.get(f"k{ident}")!r} at the next '
                                                               f'step, awaitable completed with {future.result()!r}')
        elif drive == 'terminated':
            result.violate('lost_wakeup', f'ended:{proc.state.value}',
                           f'workchain ended {proc.state.value} ({proc.exception()!r}) although every awaitable '
                           f'completed with a value')

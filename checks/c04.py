# -*- coding: utf-8 -*-
"""C04 - a kill request is never lost and no live process is unkillable.

Oracle clauses (each is a sentence of the property):
  kill_raises          kill() on a process that has not terminated never raises
  step_after_kill      after a kill issued while live no NEW step function is entered
  kill_lost            ... and the process ends KILLED (EXCEPTED only if the in-flight step failed)
  cancel_not_killed    cancelling the process's future has the same effect as kill()
  kill_result_mismatch the value / future returned by kill() is True exactly when it ended KILLED
  kill_text            the recorded kill text is that of a kill issued while live (or the program's own)
  unkillable           from every reachable live end configuration a further kill() terminates it
"""
from checks import common
from simkit import programs
from simkit.runner import Result

PROPERTY = 'C04'
LEVEL = 'exploration'
RULE = (
    'cases = generated process program (sync/async steps with virtual-time awaits, waits, continuations, Kill/raise '
    'outcomes, self-issued control calls) x environment schedule of up to K pause/play/kill/resume/cancel requests '
    'placed before any loop handle (several at one position in every order), from listener notifications during '
    'transitions, or at quiescence; systematic part = every sequence of <=2 (quick) / <=3 (thorough) requests at every '
    'position of 5 canonical programs.  A case is non-trivial if a request landed while the process was live and '
    'stepping, paused, waiting, with another request pending, or inside a transition; distinct = distinct event-log '
    'digest of such runs.'
)
BUDGET = {'quick': (200000, 55), 'thorough': (4_000_000, 600)}
COMPONENTS = common.COMPONENTS
ASSUMPTIONS = [
    'a caller gives up on the future of its kill()/pause() between loop callbacks, not from inside a listener notification of '
    'the transition that carries the request out',
    'the ready queue is FIFO (asyncio guarantee) - schedules that permute it are not generated',
    'lifecycle hooks of the generated programs do not raise (that is C03)',
    'kill text of the future-cancel path is the literal plumpy uses ("Killed by future being cancelled")',
]
EXPECTED_COUNTERS = ['kind:workchain', 'probe:kill_while_pause_pending', 'probe:kill_from_listener', 'probe:kill_while_paused',
                     'probe:kill_in_waiting_step', 'probe:cancel_future_live', 'probe:probe_kill_used']
KINDS = ['pause', 'play', 'kill', 'resume']
CANCEL_TEXT = 'Killed by future being cancelled'

PROGRAM_CFG = {
    'max_steps': 4,
    'rets': ['value', 'value', 'stop', 'unsuccessful', 'kill', 'raise'],
    'effects': ['out', 'status', 'callsoon'],
    'selfacts': ['pause', 'play', 'kill'],
    'p_selfact': 0.2,
}

_sys_cache = {}


def systematic(tier):
    if tier in _sys_cache:
        return _sys_cache[tier]
    cases = []
    max_len = 2 if tier == 'quick' else 3
    for name, program in programs.canonical_programs().items():
        ticks, notify, _ = common.dry_run(program)
        positions = list(range(0, ticks + 1))
        for schedule in common.systematic_schedules(KINDS, positions, max_len):
            if not any(a['act'] == 'kill' for a in schedule):
                continue
            cases.append({'program': program, 'schedule': schedule, 'opts': {}, 'origin': f'systematic:{name}'})
        # requests from inside transitions (listener notifications)
        for event, count in sorted(notify.items()):
            for k in range(count):
                for first in ('kill', 'pause'):
                    cases.append({'program': program,
                                  'schedule': [{'act': first, 'on': [event, k]}, {'act': 'kill', 'at': ticks + 3}],
                                  'opts': {}, 'origin': f'systematic:{name}:listener'})
        # a kill after (or inside) a burst of alternating pause/play requests at one position
        for pos in positions:
            for repeats in (1, 2, 3):
                for tail in ((), ('pause',)):
                    burst = ['pause', 'play'] * repeats + list(tail)
                    for kill_at in range(len(burst) + 1):
                        kinds = burst[:kill_at] + ['kill'] + burst[kill_at:]
                        if kill_at not in (0, len(burst)) and repeats == 3:
                            continue
                        cases.append({'program': program, 'schedule': [{'act': kind, 'at': pos} for kind in kinds],
                                      'opts': {}, 'origin': f'systematic:{name}:burst'})
        cases.append({'program': program, 'schedule': [{'act': 'cancel', 'at': 0}], 'opts': {}})
        for pos in positions:
            cases.append({'program': program, 'schedule': [{'act': 'cancel', 'at': pos}], 'opts': {}})
    _sys_cache[tier] = cases
    return cases


def random_case(rng, tier):
    if rng.random() < 0.25:
        program = common.gen_workchain_with_awaitables(rng)
    else:
        program = programs.gen_process_program(rng, PROGRAM_CFG)
    ticks, notify, _ = common.dry_run(program)
    kinds = KINDS + (['cancel'] if rng.random() < 0.2 else []) + (['cancel_stepper'] if rng.random() < 0.15 else []) \
        + (['giveup', 'giveup'] if rng.random() < 0.15 else [])
    if program.get('kind') == 'workchain':
        kinds = ['pause', 'play', 'kill', 'kill', 'complete'] + (['cancel'] if rng.random() < 0.2 else [])
    max_actions = 4 if tier == 'quick' else 6
    schedule = common.gen_schedule(rng, kinds, max_actions, ticks, notify, must=['kill', 'kill', 'kill', 'cancel'])
    for action in schedule:
        if action['act'] == 'giveup' and 'on' in action:
            # (a caller gives up between loop callbacks - a time-out - not from inside the notification of the very
            # transition that carries its request out)
            action.pop('on')
            action['at'] = rng.randint(0, ticks + 2)
    for action in schedule:
        if action['act'] == 'complete':
            action.update(fut=rng.randrange(max(program.get('n_futures', 1), 1)), how='value', v='done')
    return {'program': program, 'schedule': schedule, 'opts': common.with_communicator(rng, {})}


def shrink(case):
    if case['program'].get('kind') == 'workchain':
        import copy
        for i in range(len(case['schedule'])):
            candidate = copy.deepcopy(case)
            del candidate['schedule'][i]
            yield candidate
        for i, action in enumerate(case['schedule']):
            if action.get('at', 0) > 0:
                candidate = copy.deepcopy(case)
                candidate['schedule'][i]['at'] = action['at'] - 1
                yield candidate
        return
    yield from common.shrink_control(case)


def run(case):
    result = Result()
    engine = common.new_engine(case, record_hooks=False)
    try:
        if not engine.start():
            raise RuntimeError(f'construction failed: {engine.construct_error!r}')
        engine.run_schedule()
        _oracle(engine, result, case)
        common.finish_result(engine, result)
        result.nontrivial = common.nontrivial_by_context(engine)
    finally:
        common.close_engine(engine)
    return result


def _kill_context_signature(engine, event_index):
    """Abstract context of the first live kill (from the action record nearest to the call)."""
    best = None
    for record in engine.records:
        if record.seq <= event_index:
            best = record
    if best is None:
        return 'self'
    return f'{best.action["act"]}@{best.context}/{best.where}'


def _oracle(engine, result, case):
    world, proc = engine.world, engine.proc
    events = world.events
    is_wc = case['program'].get('kind') == 'workchain'
    program_kill_msgs = set() if is_wc else {s['ret'].get('msg') for s in case['program']['steps'] if s['ret']['t'] == 'kill'}
    if is_wc:
        result.counters['kind:workchain'] += 1

    # -- probes (reach) -------------------------------------------------------------------------
    for record in engine.records:
        kind = record.action['act']
        if kind == 'kill' and record.pre_live:
            if 'pausing' in record.context:
                result.counters['probe:kill_while_pause_pending'] += 1
            if record.where == 'listener':
                result.counters['probe:kill_from_listener'] += 1
            if 'paused' in record.context:
                result.counters['probe:kill_while_paused'] += 1
            if record.context.startswith('waiting+stepping'):
                result.counters['probe:kill_in_waiting_step'] += 1
        if kind == 'cancel' and record.pre_live:
            result.counters['probe:cancel_future_live'] += 1

    # -- (1) kill on a live process never raises ------------------------------------------------
    for record in engine.records:
        if record.action['act'] == 'kill' and record.pre_live and record.raised is not None:
            result.violate('kill_raises', f'{type(record.raised).__name__}@{record.context}',
                           f'kill() raised {record.raised!r} in context {record.context}')
    for kind, live, value in world.self_results:
        if kind == 'kill' and live and isinstance(value, BaseException):
            result.violate('kill_raises', f'{type(value).__name__}@self', f'kill() from inside a step raised {value!r}')

    # -- first kill issued while live -----------------------------------------------------------
    first_kill = None
    for index, event in enumerate(events):
        if event[0] == 'call' and event[2] == 'kill' and event[4]:
            first_kill = (index, event[3])
            break

    final_state = proc.state.value
    # when whoever runs the process gave up in between (its stepping task was cancelled), "as soon as the current step
    # yields" has no meaning any more: what remains is that kill() never raises and that a further kill() terminates the
    # process from wherever that left it
    abandoned = engine.stepper_cancelled > 0 or engine.given_up > 0
    if engine.stepper_cancelled:
        result.counters['probe:stepping_task_cancelled'] += 1
    if engine.given_up:
        # a request whose caller gave up (cancelled the future it got back) is withdrawn, not lost; what must not happen is
        # that the step in flight blows up over it
        result.counters['probe:caller_gave_up_on_request'] += 1
        task = engine.task
        if task.done() and not task.cancelled() and task.exception() is not None:
            result.violate('stepping_raised', type(task.exception()).__name__,
                           f'after the caller of a kill()/pause() gave up on the future it got back, step_until_terminated() '
                           f'ended with {task.exception()!r} (state {proc.state.value})')
    if first_kill is not None and not abandoned:
        index, text = first_kill
        signature_ctx = _kill_context_signature(engine, index)
        later_steps = [e for e in events[index + 1:] if e[0] in ('step', 'wstep')]
        if later_steps:
            result.violate('step_after_kill', signature_ctx,
                           f'step {later_steps[0][2]} was entered after a kill had been requested on a live process')
        raised_after = any(e[0] == 'raise' for e in events[index + 1:])
        raised_any = any(e[0] == 'raise' for e in events) or bool(world.awaitable_errors)  # (a failed awaitable fails the wait)
        ok_final = final_state == 'killed' or (final_state == 'excepted' and (raised_after or raised_any))
        if not ok_final:
            rule = 'cancel_not_killed' if text == CANCEL_TEXT else 'kill_lost'
            result.violate(rule, f'{signature_ctx}|{final_state}',
                           f'kill requested while live (text {text!r}) but the process ended {final_state} '
                           f'(paused={proc.paused})')
        if final_state == 'killed':
            message = proc.killed_msg()
            recorded = message.get('message') if isinstance(message, dict) else message
            allowed = {text} | program_kill_msgs
            if recorded not in allowed:
                result.violate('kill_text', signature_ctx, f'killed_msg text {recorded!r} not in {allowed!r}')

    # -- (5) cancelling the process's future while it is live has the same effect as kill() --------------------
    for record in engine.records:
        if abandoned:
            break
        if record.action['act'] == 'cancel' and record.pre_live and record.result is True:
            raised = any(e[0] == 'raise' for e in events) or bool(world.awaitable_errors)
            if not (final_state == 'killed' or (final_state == 'excepted' and raised)):
                result.violate('cancel_not_killed', f'cancel@{record.context}/{record.where}|{final_state}',
                               f'the process future was cancelled while the process was live ({record.context}) but the '
                               f'process ended {final_state} ({proc.exception()!r})')
                break

    # -- (3) returned value is True exactly when the process ended KILLED -------------------------
    ended_killed = final_state == 'killed'
    returned = [(f'{r.action["act"]}@{r.context}', r.result) for r in engine.records
                if r.action['act'] == 'kill' and r.raised is None]
    returned += [('self', value) for kind, live, value in world.self_results
                 if kind == 'kill' and not isinstance(value, BaseException)]
    if proc.has_terminated() and not abandoned:
        for where, value in returned:
            normal = common.future_value(value)
            if (normal is True) != ended_killed:
                result.violate('kill_result_mismatch', f'{normal!r}|{final_state}',
                               f'kill() [{where}] returned/resolved to {normal!r} but the process ended {final_state}')
        for record in engine.records:
            if record.action['act'] == 'kill' and record.raised is None and record.result is True \
                    and record.post_state != 'killed':
                result.violate('kill_result_mismatch', f'True-now|{record.post_state}',
                               'kill() returned True but the process was not KILLED when it returned')

    # -- (6) probing kill from the live end configuration ----------------------------------------
    if not proc.has_terminated():
        result.counters['probe:probe_kill_used'] += 1
        context = engine.control_context()
        record = engine.extra_action({'act': 'kill', 'msg': 'probe'}, where='probe')
        engine.run_to_quiescence()
        if record.raised is not None:
            result.violate('kill_raises', f'{type(record.raised).__name__}@{context}',
                           f'probing kill() raised {record.raised!r} in context {context}')
        if proc.state.value != 'killed':
            result.violate('unkillable', f'{context}|{proc.state.value}',
                           f'a probing kill() in live end configuration {context} left the process '
                           f'{proc.state.value} (paused={proc.paused})')
        else:
            normal = common.future_value(record.result)
            if record.raised is None and normal is not True:
                result.violate('kill_result_mismatch', f'{normal!r}|killed',
                               f'probing kill() resolved to {normal!r} although the process ended KILLED')

# -*- coding: utf-8 -*-
"""C13 - a step's return value alone decides what happens next, with exact arguments.

Oracle (against the reference model of the program text, simkit.programs.model_run):
  continuation_args   every executed step received exactly the positional and keyword arguments the command carried
                      (Continue(f,*a,**k) -> f(*a,**k); Wait(f) + resume(v) -> f(v))
  step_sequence       the sequence of executed steps is the one the commands denote (nothing repeated or skipped)
  final_outcome       plain value / Stop / UnsuccessfulResult / Kill(msg) / raise end the process as they say
with, before each step with probability 1/2, a checkpoint -> abandon -> restore through a seeded medium.
"""
import copy

from checks import common
from simkit import persist, programs, seams
from simkit.runner import Result

PROPERTY = 'C13'
LEVEL = 'exploration'
RULE = (
    'cases = generated chains of steps returning Continue(f,*a,**k) / Wait(f,msg,data) / plain values / Stop / '
    'UnsuccessfulResult / Kill(msg) / raising, with random JSON-like positional and keyword arguments and resume values, '
    'x a set of step boundaries at which the process is checkpointed (deepcopy | pickle | YAML, default or custom '
    'loader), abandoned and restored in a fresh loop (possibly twice in a row).  Non-trivial = the chain has >= 2 steps '
    'and carries an argument, keyword argument or resume value; distinct = distinct event-log digest.'
)
BUDGET = {'quick': (100000, 55), 'thorough': (3_000_000, 600)}
COMPONENTS = {
    'real': common.COMPONENTS['real'] + ['plumpy.persistence (Bundle, Savable, auto_persist, SavableFuture)',
                                          'plumpy.loaders', 'pickle', 'PyYAML'],
    'stub': common.COMPONENTS['stub'] + ['process crash -> SimCrash raised from a public ENTERED_STATE callback; '
                                          'restart -> Bundle.unbundle in a fresh SimLoop'],
}
ASSUMPTIONS = ['step arguments are picklable / YAML-able JSON-like values', 'steps depend only on their arguments']
EXPECTED_COUNTERS = ['probe:restore_from_exit_phase', 'probe:restore_from_paused_notification', 'probe:instance_ran_on_after_checkpoint', 'probe:argument_with_identity', 'probe:continue_with_kwargs', 'probe:wait_resumed_with_value', 'probe:restore_before_continuation',
                     'probe:restore_in_waiting', 'probe:double_restore', 'medium:deepcopy', 'medium:pickle', 'medium:yaml']
PROGRAM_CFG = {
    'max_steps': 5,
    'p_wait': 0.35,
    'rets': ['value', 'stop', 'unsuccessful', 'kill', 'raise'],
    'effects': ['out', 'status'],
    'kwargs': True,
    'raw_kill': True,
    'p_required_output': 0.25,
    'future_results': True,
    'p_async': 0.3,
    'max_awaits': 1,
}


def systematic(tier):
    return []


def random_case(rng, tier):
    program = programs.gen_process_program(rng, PROGRAM_CFG)
    if rng.random() < 0.2:
        program['codec'] = True  # the class stores inputs/outputs in a representation of its own
    n_boundaries = len(program['steps']) * 2 + 1
    crashes = {}
    if rng.random() < 0.7:
        for boundary in range(0, n_boundaries):
            if rng.random() < 0.5:
                crashes[str(boundary)] = 2 if rng.random() < 0.15 else 1
    media = [rng.choice(persist.MEDIA) for _ in range(3)]
    case = {'program': program, 'crashes': crashes, 'media': media, 'loader': rng.choice(['default', 'default', 'custom'])}
    if rng.random() < 0.2:
        case['detached'] = True  # checkpoints are loaded into a loop that is named in the load context but is not the current one
    if rng.random() < 0.2:
        # "between the return and the next step" in the narrowest sense: the checkpoint is written while the state of the
        # step that has just returned is being left (EXITING_STATE).  The restored process may execute that step once more -
        # its command had not taken effect - and then the command means what it says
        case['crash_on_exit'] = sorted({rng.randint(1, len(program['steps']) + 2) for _ in range(rng.randint(1, 2))})
    for step in program['steps']:
        if step['ret']['t'] in ('continue', 'wait', 'stop', 'kill') and rng.random() < 0.2:
            step['ret']['subcmd'] = True  # an application subclass of the command
    for number, step in enumerate(program['steps']):
        if step['ret']['t'] == 'continue' and rng.random() < 0.3:
            step['ret']['token'] = number  # an argument with identity
    if rng.random() < 0.3 and not case.get('crash_on_exit'):
        # (not together with exit-phase checkpoints: a step executed twice sees what its first execution did to its arguments)
        # steps that work on their arguments in place; checkpoints kept as Bundle objects or in the bundled persisters; the
        # instance runs on for a few boundaries after its checkpoint before it is lost
        for step in program['steps']:
            if rng.random() < 0.6:
                step['mutargs'] = True
        case['media'] = [rng.choice(['bundle', 'bundle'] + list(persist.PERSISTER_MEDIA) + list(persist.MEDIA)) for _ in range(3)]
        case['lag'] = {key: rng.randint(1, 3) for key in crashes if rng.random() < 0.7}
    if rng.random() < 0.3:
        # "checkpointed and restored between the return and the next step": the pause is requested while the step function
        # runs, carried out with the transition the returned command asks for, and the checkpoint is written when the
        # listeners are told that the process is paused
        case['pause_in_step'] = sorted({rng.randint(1, len(program['steps']) + 1) for _ in range(rng.randint(1, 2))})
        case['crash_on_paused'] = sorted({rng.randint(1, 2) for _ in range(rng.randint(0, 2))})
        case['crash_on_played'] = sorted({rng.randint(1, 2) for _ in range(rng.randint(0, 1))})
    if rng.random() < 0.2 and any(step['ret']['t'] == 'wait' for step in program['steps']):
        # resume(v) arrives right behind a pause request (same loop iteration); whoever paused plays again: f(v) still runs
        case['pause_at_resume'] = sorted({rng.randint(1, 3) for _ in range(rng.randint(1, 2))})
    return case


def shrink(case):
    for key in list(case.get('lag') or {}):
        candidate = copy.deepcopy(case)
        del candidate['lag'][key]
        yield candidate
    for key in ('pause_in_step', 'crash_on_paused', 'crash_on_played', 'crash_on_exit', 'pause_at_resume'):
        for i in range(len(case.get(key) or [])):
            candidate = copy.deepcopy(case)
            del candidate[key][i]
            yield candidate
    for key in list(case['crashes']):
        candidate = copy.deepcopy(case)
        del candidate['crashes'][key]
        yield candidate
    for program in common.shrink_program(case['program']):
        candidate = copy.deepcopy(case)
        candidate['program'] = program
        yield candidate
    for key, count in case['crashes'].items():
        if count > 1:
            candidate = copy.deepcopy(case)
            candidate['crashes'][key] = 1
            yield candidate
    if case['loader'] != 'default':
        candidate = copy.deepcopy(case)
        candidate['loader'] = 'default'
        yield candidate
    if case['media'] != ['deepcopy']:
        candidate = copy.deepcopy(case)
        candidate['media'] = ['deepcopy']
        yield candidate


def run(case):
    result = Result()
    seams.begin_case()
    runner = persist.RestartRun(case['program'], case.get('crashes'), case.get('media'), case.get('loader', 'default'),
                                pause_in_step=case.get('pause_in_step'), crash_on_paused=case.get('crash_on_paused'),
                                crash_on_played=case.get('crash_on_played'), lag=case.get('lag'),
                                crash_on_exit=case.get('crash_on_exit'), detached=case.get('detached'),
                                pause_at_resume=case.get('pause_at_resume'))
    try:
        proc = runner.run()
        if runner.runaway is not None:
            result.events = list(runner.world.events)
            result.nontrivial = True
            result.violate('runaway', 'tick_limit', f'the process does not come to rest: {runner.runaway}')
            return result
        if runner.resume_error is not None:
            result.nontrivial = True
            result.violate('resume_failed', type(runner.resume_error).__name__,
                           f'resume() of a process that waits after Wait(f) raised {runner.resume_error!r}')
        elif runner.resume_lost is not None:
            result.nontrivial = True
            result.violate('resume_lost', runner.resume_lost,
                           f'the process still sits in the same {runner.resume_lost} state after resume(v) (and play): the '
                           f'continuation of Wait(f) never ran')
        elif runner.load_error is not None:
            result.nontrivial = True
            result.violate('restore_failed', type(runner.load_error).__name__,
                           f'a checkpoint taken before a step could not be loaded: {runner.load_error!r}')
        else:
            _oracle(runner, proc, result, case)
        result.events = list(runner.world.events)
        result.sim_time = runner.sim_time
        result.ticks = runner.ticks
    finally:
        runner.close()
        seams.end_case()
    return result


def _oracle(runner, proc, result, case):
    program = case['program']
    events = runner.world.events
    # steps whose state was being left when a checkpoint was written and restored: executed once more
    repeats, seen = set(), 0
    for event in events:
        if event[0] == 'step':
            seen += 1
        elif event[0] == 'crash' and event[2] == 'exit:running' and seen:
            repeats.add(seen - 1)
            result.counters['probe:restore_from_exit_phase'] += 1
    model = programs.model_run(program, 'trace', repeats=repeats)
    got = [[e[2], e[3], e[4]] for e in events if e[0] == 'step']
    want = model['trace']

    steps = program['steps']
    if any(s['ret'].get('kwargs') for s in steps):
        result.counters['probe:continue_with_kwargs'] += 1
    if model['waits']:
        result.counters['probe:wait_resumed_with_value'] += 1
    for event in events:
        if event[0] == 'pause_at_resume':
            result.counters['probe:resume_right_behind_pause'] += 1
            continue
        if event[0] == 'crash' and event[2] == 'lagged':
            result.counters['probe:instance_ran_on_after_checkpoint'] += 1
            continue
        if event[0] == 'crash':
            result.counters[f'medium:{event[3]}'] += 1
            if '-notification' in str(event[2]) or str(event[2]).startswith('exit:'):
                result.counters['probe:restore_from_paused_notification'] += 1
                continue
            result.counters['probe:restore_in_waiting' if event[2] == 'waiting' else 'probe:restore_before_continuation'] += 1
    if any(v > 1 for v in (case.get('crashes') or {}).values()) and runner.restores >= 2:
        result.counters['probe:double_restore'] += 1
    result.counters['unsavable_points'] += runner.unsavable
    result.nontrivial = len(want) >= 2 and any(w[1] or w[2] for w in want)

    tokens = [e for e in events if e[0] == 'token']
    if tokens:
        result.counters['probe:argument_with_identity'] += 1
        if runner.restores == 0 and not all(e[4] for e in tokens):
            bad = next(e for e in tokens if not e[4])
            result.violate('continuation_args', 'identity', f'{bad[2]} received a copy of the object handed to Continue, not '
                                                            f'the object itself (no checkpoint in between)')
    for index, (mine, theirs) in enumerate(zip(got, want)):
        if mine[0] != theirs[0]:
            result.violate('step_sequence', 'order', f'step #{index} is {mine[0]}, the commands denote {theirs[0]}')
            return
        if mine[1] != theirs[1] or mine[2] != theirs[2]:
            what = 'kwargs' if mine[2] != theirs[2] else 'args'
            crashed = 'restored' if runner.restores else 'plain'
            result.violate('continuation_args', f'{what}:{crashed}',
                           f'{mine[0]} received args={mine[1]} kwargs={mine[2]}, the command carried '
                           f'args={theirs[1]} kwargs={theirs[2]} (restores so far in run: {runner.restores})')
            return
    if len(got) != len(want):
        kind = 'repeated_or_extra' if len(got) > len(want) else 'skipped'
        result.violate('step_sequence', kind, f'executed {[g[0] for g in got]}, the commands denote {[w[0] for w in want]}')
        return

    state = proc.state.value
    if state != model['final']:
        result.violate('final_outcome', f'{model["final"]}->{state}', f'ended {state}, the last command says {model["final"]} '
                                                                      f'({proc.exception()!r})')
        return
    if state == 'finished':
        if programs.freeze(proc.result()) != programs.freeze(model['result']) or proc.successful() != model['ok']:
            result.violate('final_outcome', 'result', f'result()={proc.result()!r} successful={proc.successful()} expected '
                                                      f'{model["result"]!r} / {model["ok"]}')
        if programs.freeze(proc.outputs) != programs.freeze(model['outputs']):
            result.violate('final_outcome', 'outputs', f'outputs {proc.outputs!r} expected {model["outputs"]!r}')
    elif state == 'killed':
        message = proc.killed_msg()
        text = message.get('message') if isinstance(message, dict) else message
        if text != model['kill_msg']:
            result.violate('final_outcome', 'kill_msg', f'killed_msg text {text!r} expected {model["kill_msg"]!r}')
    elif state == 'excepted':
        exc = proc.exception()
        if not isinstance(exc, programs.ProgramError) or list(exc.args) != [model['raised']]:
            result.violate('final_outcome', 'exception', f'exception() is {exc!r}, the step raised ProgramError({model["raised"]!r})')

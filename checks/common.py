# -*- coding: utf-8 -*-
"""Shared helpers of the control-family checks (C01, C02, C04, C05, C06, C13): schedule
generation, dry runs, shrinking."""
import copy
import itertools

from simkit import programs, seams
from simkit.engine import Engine, LISTENER_EVENTS
from simkit.loop import TickLimit
from simkit.runner import Result

COMPONENTS = {
    'real': [
        'plumpy.processes.Process (state machine, step loop, pause/play/kill/resume/fail, futures, callbacks)',
        'plumpy.process_states (Created/Running/Waiting/Finished/Excepted/Killed, commands, interruptions)',
        'plumpy.base.state_machine', 'plumpy.futures.CancellableAction', 'plumpy.events.ProcessCallback',
        'plumpy.event_helper / ProcessListener', 'plumpy.persistence.SavableFuture',
        'CPython asyncio Task/Future/Handle (pure-Python variants, as under nest_asyncio)',
    ],
    'stub': [
        'event loop selector/clock -> simkit.loop.SimLoop (virtual time, one handle per iteration)',
        'time.time / uuid.uuid4 in plumpy.processes -> deterministic shims',
        'controller / user issuing requests -> seeded environment schedule',
    ],
}


def plumpy():
    return seams.install()


def new_engine(case, **kwargs):
    seams.begin_case()
    return Engine(case, plumpy(), **kwargs)


def close_engine(engine):
    engine.finish()
    seams.end_case()


def dry_run(program, opts=None):
    """Uninterrupted run of a program (drive-out only).  Returns (ticks, notify counts, engine summary)."""
    case = {'program': program, 'schedule': [], 'opts': dict(opts or {}, cleanups=0)}
    engine = new_engine(case, record_hooks=False)
    try:
        if not engine.start():
            return 0, {}, {'constructed': False}
        try:
            done = engine.drive_out()
        except TickLimit:
            # the program does not come to rest even without requests: still generate a case around it (the check itself
            # decides what that means for its property)
            return 40, dict(engine.notify_counts), {'constructed': True, 'terminated': False, 'runaway': True,
                                                    'state': engine.proc.state.value, 'ticks': 40,
                                                    'notify': dict(engine.notify_counts), 'time': engine.loop.time()}
        info = {
            'constructed': True,
            'terminated': done == 'terminated',
            'state': engine.proc.state.value,
            'ticks': engine.loop.tick,
            'notify': dict(engine.notify_counts),
            'time': engine.loop.time(),
        }
        return engine.loop.tick, dict(engine.notify_counts), info
    finally:
        close_engine(engine)


def gen_action(rng, kinds, msgs=True):
    kind = kinds[rng.randrange(len(kinds))]
    action = {'act': kind}
    if kind in ('pause', 'kill') and msgs:
        action['msg'] = rng.choice([None, '', f'{kind}-{rng.randrange(3)}'])
    if kind == 'fail':
        action['msg'] = f'fail-{rng.randrange(3)}'
        if rng.random() < 0.4:
            action['exc'] = rng.choice(sorted(programs.PROGRAM_ERRORS))  # also an instance of a builtin exception type
    if kind == 'callback':
        action['fail'] = rng.random() < 0.6
    return action


def gen_schedule(rng, kinds, max_actions, ticks, notify, p_same=0.45, p_listener=0.15, must=None, late=0.1):
    """Seeded environment schedule: positions before any handle of the run (0..ticks+1), clusters at
    the same position (in every order over seeds), some from listener notifications."""
    n_actions = rng.randint(1, max_actions)
    schedule = []
    position = rng.randint(0, ticks + 1)
    for i in range(n_actions):
        action = gen_action(rng, kinds)
        if i > 0 and rng.random() >= p_same:
            position = rng.randint(0, ticks + 1) if rng.random() < 0.6 else min(ticks + 2, position + rng.randint(1, 2))
        events = [e for e in LISTENER_EVENTS if notify.get(e)]
        if events and rng.random() < p_listener and action['act'] not in ('callback',):
            event = rng.choice(events)
            action['on'] = [event, rng.randrange(notify[event])]
        elif rng.random() < late:
            action['at'] = ticks + 5 + i  # fires at quiescence, after everything that was reachable
        else:
            action['at'] = position
        schedule.append(action)
    if must and not any(a['act'] in must for a in schedule):
        index = rng.randrange(len(schedule))
        schedule[index]['act'] = must[rng.randrange(len(must))]
        schedule[index].pop('fail', None)
    return schedule


def systematic_schedules(kinds, positions, max_len):
    """Every sequence of up to max_len actions placed at one position or two neighbouring ones."""
    out = []
    for length in range(1, max_len + 1):
        for combo in itertools.product(kinds, repeat=length):
            for pos in positions:
                out.append([{'act': k, 'at': pos} for k in combo])
                if length >= 2:
                    # split: first action one handle earlier than the rest
                    out.append([{'act': combo[0], 'at': pos}] + [{'act': k, 'at': pos + 1} for k in combo[1:]])
    return out


# ---------------------------------------------------------------------------------------------
# shrinking


def _reindex_after_removal(steps, removed, redirect):
    for step in steps:
        ret = step['ret']
        if ret.get('to') is not None:
            if ret['to'] == removed:
                ret['to'] = redirect
            if ret['to'] > removed:
                ret['to'] -= 1


def shrink_program(program):
    steps = program['steps']
    # remove a pass-through step
    for j, step in enumerate(steps):
        if j == 0 or step['ret'].get('to') is None:
            continue
        candidate = copy.deepcopy(program)
        target = step['ret']['to']
        del candidate['steps'][j]
        _reindex_after_removal(candidate['steps'], j, target)
        yield candidate
    # drop unreachable tail
    reachable = {0}
    for j, step in enumerate(steps):
        if j in reachable and step['ret'].get('to') is not None:
            reachable.add(step['ret']['to'])
    if len(reachable) < len(steps):
        last = max(reachable)
        if last < len(steps) - 1:
            candidate = copy.deepcopy(program)
            candidate['steps'] = candidate['steps'][: last + 1]
            yield candidate
    for j, step in enumerate(steps):
        # make a step terminal
        if step['ret'].get('to') is not None:
            candidate = copy.deepcopy(program)
            candidate['steps'][j]['ret'] = {'t': 'value', 'v': 0}
            yield candidate
        # drop effects
        for gi, group in enumerate(step.get('effects') or []):
            for ei in range(len(group)):
                candidate = copy.deepcopy(program)
                del candidate['steps'][j]['effects'][gi][ei]
                yield candidate
        # drop an await
        for ai in range(len(step.get('awaits') or [])):
            candidate = copy.deepcopy(program)
            cstep = candidate['steps'][j]
            del cstep['awaits'][ai]
            groups = cstep['effects']
            if len(groups) > ai + 1:
                groups[ai] = groups[ai] + groups[ai + 1]
                del groups[ai + 1]
            yield candidate
        if step.get('async') and not step.get('awaits'):
            candidate = copy.deepcopy(program)
            candidate['steps'][j]['async'] = False
            yield candidate
        for ai, dur in enumerate(step.get('awaits') or []):
            if dur not in (0, 1):
                candidate = copy.deepcopy(program)
                candidate['steps'][j]['awaits'][ai] = 1
                yield candidate
        ret = step['ret']
        if ret.get('args') or ret.get('kwargs'):
            candidate = copy.deepcopy(program)
            candidate['steps'][j]['ret']['args'] = []
            candidate['steps'][j]['ret']['kwargs'] = {}
            yield candidate
        if ret['t'] == 'wait' and (ret.get('msg') is not None or ret.get('data') is not None):
            candidate = copy.deepcopy(program)
            candidate['steps'][j]['ret']['msg'] = None
            candidate['steps'][j]['ret']['data'] = None
            yield candidate


def shrink_control(case):
    schedule = case.get('schedule') or []
    for i in range(len(schedule)):
        candidate = copy.deepcopy(case)
        del candidate['schedule'][i]
        yield candidate
    for program in shrink_program(case['program']):
        candidate = copy.deepcopy(case)
        candidate['program'] = program
        yield candidate
    for i, action in enumerate(schedule):
        if action.get('msg') is not None:
            candidate = copy.deepcopy(case)
            candidate['schedule'][i].pop('msg')
            yield candidate
        if 'at' in action and action['at'] > 0:
            for new in sorted({0, action['at'] // 2, action['at'] - 1}):
                if new < action['at']:
                    candidate = copy.deepcopy(case)
                    candidate['schedule'][i]['at'] = new
                    yield candidate
        if 'on' in action:
            candidate = copy.deepcopy(case)
            candidate['schedule'][i].pop('on')
            candidate['schedule'][i]['at'] = 0
            yield candidate
    opts = case.get('opts') or {}
    for key in list(opts):
        candidate = copy.deepcopy(case)
        del candidate['opts'][key]
        yield candidate


def finish_result(engine, result):
    """Fill in the generic parts of a Result from an engine."""
    result.events = list(engine.world.events)
    result.sim_time = engine.loop.time()
    result.ticks = engine.loop.tick
    for (context, kind), count in engine.contexts.items():
        result.counters[f'ctx:{context}:{kind}'] += count
    for record in engine.records:
        result.counters[f'action:{record.action["act"]}:{record.where}'] += 1
    result.counters['timers_fired'] += engine.loop.timers_fired
    result.counters['loop_exception_contexts'] += len(engine.loop.exc_contexts)
    result.counters['gc_timed_contexts_ignored'] += engine.loop.gc_contexts
    return result


def nontrivial_by_context(engine):
    """A run is non-trivial when at least one action landed while the process was live and in flight:
    stepping, paused, waiting, with a request pending, or from a listener during a transition."""
    for record in engine.records:
        if record.where == 'driveout':
            continue
        if not record.pre_live:
            continue
        if record.where == 'listener' or any(tag in record.context for tag in ('stepping', 'paused', 'pausing',
                                                                                 'killing', 'waiting')):
            return True
    return False


def future_value(value):
    """Normal form of what a control call returned, read at the end of the run."""
    import asyncio

    if asyncio.isfuture(value):
        if not value.done():
            return 'pending'
        if value.cancelled():
            return 'cancelled'
        if value.exception() is not None:
            return 'exception:' + type(value.exception()).__name__
        return value.result()
    return value


# ---------------------------------------------------------------------------------------------
# reference (uninterrupted) execution in the same simulator


def user_trace(events, label='p'):
    """The part of the event log produced by user step code: what ran, with what, and what it saw."""
    out = []
    for event in events:
        if event[0] == 'step' and event[1] == label:
            out.append(['step', event[2], event[3], event[4], event[6]])  # name, args, kwargs, status
        elif event[0] == 'resumed' and event[1] == label:
            out.append(['resumed', event[2], event[3], event[5]])
        elif event[0] == 'wstep' and event[1] == label:
            out.append(['wstep', event[2], event[3], event[5]])  # outline step, context it saw, status it saw
        elif event[0] == 'pred' and event[1] == label:
            out.append(['pred', event[2], event[3]])
    return out


def gen_workchain_with_awaitables(rng):
    """A generated outline in which some steps hand bare futures to the context (the environment completes them)."""
    from simkit import wcprograms

    program = wcprograms.gen_outline(rng, {'max_depth': 2, 'max_len': 3})
    fut = 0
    for name, step in program['steps'].items():
        if step.get('ret') is None and rng.random() < 0.45 and fut < 3:
            ref = {'fut': fut}
            roll = rng.random()
            if roll < 0.15:
                ref.update(pre='exc', v=f'pre{fut}')  # already failed when it is handed over: the workchain ends EXCEPTED
            elif roll < 0.25:
                ref.update(pre='value', v=f'pre{fut}')  # already complete when it is handed over
            if rng.random() < 0.5:
                step['effects'].append({'e': 'toctx', 'key': f'f{fut}', 'ref': ref})
            else:
                # handed over by RETURNING ToContext (which the enclosing if_/while_ steppers have to pass on)
                step['ret'] = {'t': 'tocontext', 'items': {f'f{fut}': ref}}
            fut += 1
    program['n_futures'] = fut
    return program



def with_communicator(rng, opts, p=0.25):
    """In a share of the cases the process is given a communicator (simulated transport, sometimes behind plumpy's
    LoopCommunicator): it then announces its transitions, is subscribed for control messages and has clean-ups of its own -
    none of which may change what the property says."""
    if rng.random() < p:
        opts['comm'] = True
        opts['pid'] = rng.choice(['sim-pid', 'sim-pid', 7, {'__uuid__': 7}, None])
        if rng.random() < 0.4:
            opts['wrap'] = True
        if rng.random() < 0.4:
            opts['eager'] = True
        if rng.random() < 0.4:
            # one of its announcements fails in a way the process tolerates (closed connection, invalid channel, timeout)
            opts['broadcast_fault'] = [rng.randint(1, 6), rng.choice(['ConnectionClosed', 'ChannelInvalidStateError', 'TimeoutError'])]
    return opts


def outcome(proc):
    """Observable outcome of a process through its public accessors (JSON-like)."""
    state = proc.state.value
    out = {'state': state, 'outputs': programs.freeze(proc.outputs), 'status': proc.status}
    if state == 'finished':
        out['result'] = programs.freeze(proc.result())
        out['successful'] = proc.successful()
    elif state == 'excepted':
        exc = proc.exception()
        out['exception'] = [type(exc).__name__, programs.freeze(list(exc.args))]
    elif state == 'killed':
        msg = proc.killed_msg()
        out['kill_text'] = msg.get('message') if isinstance(msg, dict) else msg
    return out


def reference_run(program, opts=None):
    case = {'program': program, 'schedule': [], 'opts': dict(opts or {})}
    engine = new_engine(case, record_hooks=False)
    try:
        if not engine.start():
            raise RuntimeError(f'reference construction failed: {engine.construct_error!r}')
        status = engine.drive_out()
        return {
            'drive': status,
            'trace': user_trace(engine.world.events),
            'outcome': outcome(engine.proc),
            'ticks': engine.loop.tick,
            'notify': dict(engine.notify_counts),
        }
    finally:
        close_engine(engine)


def first_difference(got, want):
    for index, (a, b) in enumerate(zip(got, want)):
        if a != b:
            if a[0] != b[0] or a[1] != b[1]:
                return index, 'order'
            return index, 'values'
    if len(got) < len(want):
        return len(got), 'missing'
    if len(got) > len(want):
        return len(want), 'extra'
    return None

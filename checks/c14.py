# -*- coding: utf-8 -*-
"""C14 - persisters are a snapshot store keyed by (pid, tag), equivalent to each other.

One history of operations drives InMemoryPersister, PicklePersister (real files in a scratch directory) and a dictionary
model holding the canonical snapshot taken at save time, while the saved processes keep running on the simulated loop
between operations.
Oracle clauses (fault-free configuration):
  load_mismatch        load returns something else than the most recently saved snapshot of that key (in either persister)
  load_presence        load succeeds for an absent key / raises for a present one
  persisters_disagree  result class (value / raises) differs between the two persisters
  listing_mismatch     list / list(pid) is not exactly the set of stored keys
  delete_not_idempotent / delete_raises / delete_scope   delete of an absent key raises; delete touches other keys
Fault configuration (separate runs, relaxed oracle): an injected write error or torn write during save may make that save
fail and may lose THAT key, and listing may fail while a torn file exists; but
  wrong_data_after_fault   no load ever returns a snapshot that was never saved under that key, other keys keep their
                           snapshots.
"""
import copy
import os
import shutil
import tempfile
import uuid

from checks import common
from simkit import canon, programs, seams, wcprograms
from simkit.runner import Result

PROPERTY = 'C14'
LEVEL = 'exploration'
RULE = (
    'cases = histories of save / load / list / list(pid) / delete / delete_all / runloaded (a process recreated from the '
    'loaded checkpoint runs for a while) / advance (the live processes run on the '
    'simulated loop) / restart (a new PicklePersister on the same directory) over 2-3 live processes and up to 3 tags, pids '
    'and tags of one kind per history (ints | UUIDs | separator-free strings, tag None included); in the fault '
    'configuration some saves get an injected open() error or a torn write (n bytes then OSError).  Non-trivial = the '
    'history contains a load or listing after an overwrite, delete or progress of the saved process; distinct = distinct '
    'event-log digest.'
)
BUDGET = {'quick': (40000, 55), 'thorough': (800_000, 600)}
COMPONENTS = {
    'real': ['plumpy.persistence.InMemoryPersister', 'plumpy.persistence.PicklePersister (real files, os.walk, os.remove, '
             'pickle)', 'plumpy.persistence.Bundle / Savable', 'plumpy.processes.Process (live, stepping between operations)'],
    'stub': ['event loop -> SimLoop', 'disk faults: plumpy.persistence.open shadowed by a wrapper that raises on open or after '
             'n written bytes (fault configuration only)', 'machine restart -> new PicklePersister on the surviving directory'],
}
ASSUMPTIONS = ['pids and tags of one kind per history, strings without the "." separator (as the property quantifies)',
               'a missing key may raise different exception types in the two persisters (compared as "raises")']
EXPECTED_COUNTERS = ['probe:two_pickle_persisters_on_one_directory', 'op:runloaded', 'probe:ran_process_from_loaded_checkpoint', 'op:save', 'op:load', 'op:list', 'op:listp', 'op:del', 'op:delall', 'op:advance', 'op:restart',
                     'probe:load_after_progress', 'probe:load_after_overwrite', 'probe:delete_absent', 'probe:load_absent',
                     'fault:open_error', 'fault:torn_write', 'kind:int', 'kind:uuid', 'kind:str']
PROGRAM_CFG = {'max_steps': 4, 'p_async': 0.9, 'max_awaits': 2, 'rets': ['value', 'stop', 'raise'],
               'effects': ['out', 'status'], 'p_wait': 0.2}


def systematic(tier):
    return []


def make_ids(kind, n):
    """Ids and tags of one kind.  Ids whose text is a prefix of another id's text, and tags likewise, are included on
    purpose (file names are built from the string forms)."""
    if kind == 'int':
        return [1, 10, 12, 0][:n], [None, 0, 1]
    if kind == 'uuid':
        return [uuid.UUID(int=(0xABC << 64) + i) for i in range(n)], [None, uuid.UUID(int=77), uuid.UUID(int=78)]
    return ['calc', 'calc2', 'calc21', 'other'][:n], [None, 'alpha', 'alpha_2']  # ('' as a tag is not separator-free text, left out)


def random_case(rng, tier):
    n_procs = rng.randint(2, 3)
    progs = [programs.gen_process_program(rng, PROGRAM_CFG) if rng.random() < 0.6 else wcprograms.gen_outline(rng)
             for _ in range(n_procs)]
    for prog in progs:
        if prog.get('kind') != 'workchain' and rng.random() < 0.2:
            prog['codec'] = True  # the class stores inputs/outputs in a representation of its own
    faults = rng.random() < 0.25
    ops = []
    saved = []
    n_ops = rng.randint(4, 14 if tier == 'quick' else 24)
    for _ in range(n_ops):
        roll = rng.random()
        proc_i = rng.randrange(n_procs + 1)  # the last index is a pid that never has a process
        tag_i = rng.randrange(3)
        if saved and rng.random() < 0.7:
            proc_i, tag_i = saved[rng.randrange(len(saved))]  # mostly aim at keys that exist (or existed)
        if roll < 0.30:
            proc_i = min(proc_i, n_procs - 1)
            saved.append((proc_i, tag_i))
            if faults and rng.random() < 0.35:
                ops.append(['save_fault', proc_i, tag_i, rng.choice(['open_error', 'torn']), rng.randint(0, 60)])
            else:
                ops.append(['save', proc_i, tag_i])
        elif roll < 0.50:
            ops.append(['load', proc_i, tag_i])
        elif roll < 0.60:
            ops.append(['list'])
        elif roll < 0.68:
            ops.append(['listp', proc_i])
        elif roll < 0.78:
            ops.append(['del', proc_i, tag_i])
        elif roll < 0.83:
            ops.append(['delall', proc_i])
        elif roll < 0.89:
            ops.append(['runloaded', proc_i, tag_i, rng.randint(2, 8)])
        elif roll < 0.95:
            ops.append(['advance', rng.randint(1, 6)])
        else:
            ops.append(['restart'])
    if rng.random() < 0.2:
        # from some point on one of the processes cannot be saved any more (it emitted an output that cannot be copied): a
        # save that fails must leave what is stored under the key as it was
        ops.insert(rng.randint(1, max(1, len(ops) - 1)), ['spoil', rng.randrange(n_procs)])
    case = {'pid_kind': rng.choice(['int', 'uuid', 'str']), 'programs': progs, 'ops': ops, 'faults': faults}
    if rng.random() < 0.3:
        case['dirname'] = rng.choice(['checkpoints[run-1]', 'a*b', 'why?', 'with space', '[x]'])
    if rng.random() < 0.3:
        case['instances'] = [rng.randrange(2) for _ in range(rng.randint(2, 7))]  # which of two pickle persisters each call uses
    return case


def shrink(case):
    for i in range(len(case['ops'])):
        candidate = copy.deepcopy(case)
        del candidate['ops'][i]
        yield candidate
    for i, op in enumerate(case['ops']):
        if op[0] == 'save_fault':
            candidate = copy.deepcopy(case)
            candidate['ops'][i] = ['save', op[1], op[2]]
            yield candidate
        if op[0] == 'advance' and op[1] > 1:
            candidate = copy.deepcopy(case)
            candidate['ops'][i] = ['advance', 1]
            yield candidate
    for i, program in enumerate(case['programs']):
        for smaller in (common.shrink_program(program) if program.get('kind') != 'workchain' else []):
            candidate = copy.deepcopy(case)
            candidate['programs'][i] = smaller
            yield candidate
    if case['pid_kind'] != 'int':
        candidate = copy.deepcopy(case)
        candidate['pid_kind'] = 'int'
        yield candidate


class DiskFaults:
    """Shadows ``open`` inside plumpy.persistence: next write-mode open fails, or its writes fail after n bytes."""

    def __init__(self):
        self.armed = None
        self.fired = 0

    def open(self, path, mode='r', *args, **kwargs):
        if self.armed is not None and 'w' in mode:
            kind, nbytes = self.armed
            self.armed = None
            self.fired += 1
            if kind == 'open_error':
                raise OSError(28, 'No space left on device (injected)')
            return TornFile(open(path, mode, *args, **kwargs), nbytes)
        return open(path, mode, *args, **kwargs)


class TornFile:
    def __init__(self, handle, limit):
        self.handle = handle
        self.left = limit

    def write(self, data):
        if len(data) > self.left:
            self.handle.write(bytes(data)[: self.left])
            self.handle.flush()
            self.left = 0
            raise OSError(5, 'Input/output error (injected torn write)')
        self.left -= len(data)
        return self.handle.write(data)

    def __getattr__(self, name):
        return getattr(self.handle, name)

    def __enter__(self):
        return self

    def __exit__(self, *exc):
        self.handle.close()
        return False


def _call(fn, *args):
    try:
        return ('ok', fn(*args))
    except Exception as exc:  # noqa: BLE001 - compared as "raises"
        return ('raises', exc)


class _SeveralInstances:
    """Two PicklePersister objects on one directory (two workers sharing a checkpoint directory): every call goes to the one
    the case's pattern names - the store is the directory, not the object."""

    def __init__(self, instances, pattern):
        self._instances, self._pattern, self._calls = instances, pattern, 0

    def __getattr__(self, name):
        instance = self._instances[self._pattern[self._calls % len(self._pattern)] % len(self._instances)]
        self._calls += 1
        return getattr(instance, name)


def _pickle_store(plumpy, directory, pattern):
    if not pattern:
        return plumpy.PicklePersister(directory)
    return _SeveralInstances([plumpy.PicklePersister(directory), plumpy.PicklePersister(directory)], pattern)


def run(case):
    result = Result()
    plumpy = common.plumpy()
    import plumpy.persistence as persistence_module

    seams.begin_case()
    world = programs.World()
    loop = seams.new_loop(max_ticks=20000)
    top = tempfile.mkdtemp(prefix='c14-')
    # the checkpoint directory has whatever name the application chose, including characters that mean something to glob
    directory = os.path.join(top, case.get('dirname') or 'checkpoints')
    disk = DiskFaults()
    persistence_module.open = disk.open
    events = world.events
    try:
        pids, tags = make_ids(case['pid_kind'], len(case['programs']) + 1)
        result.counters[f'kind:{case["pid_kind"]}'] += 1
        procs = []
        for index, program in enumerate(case['programs']):
            if program.get('kind') == 'workchain':
                from simkit import listeners

                cls = wcprograms.build_workchain_class(program, world, plumpy)
                proc = cls(pid=pids[index], loop=loop)
                proc.add_process_listener(listeners.PauseEachStep())
                result.counters['kind:workchain_process'] += 1
            else:
                cls = programs.build_process_class(program, world, plumpy, hooks=False, record_calls=False)
                proc = cls(pid=pids[index], loop=loop)
            proc._sim_label = f'p{index}'
            procs.append(proc)
            loop.create_task(proc.step_until_terminated())
        memory = plumpy.InMemoryPersister()
        pickles = _pickle_store(plumpy, directory, case.get('instances'))
        model = {}  # (pid, tag) -> canonical snapshot
        history = {}  # (pid, tag) -> list of every canonical snapshot ever saved under the key
        suspect = set()  # keys whose last save was hit by an injected fault (relaxed oracle applies to them)
        progressed_since_save = {}
        overwritten = set()
        touched = False

        def key_repr(pid, tag):
            return f'{pid!r}/{tag!r}'

        for op_index, op in enumerate(case['ops']):
            name = op[0]
            result.counters[f'op:{"save" if name == "save_fault" else name}'] += 1
            if case.get('instances') and op_index == 0:
                result.counters['probe:two_pickle_persisters_on_one_directory'] += 1
            events.append(('op', op_index, name))
            if name in ('save', 'save_fault'):
                proc, tag = procs[op[1]], tags[op[2]]
                key = (proc.pid, tag)
                try:
                    snapshot = canon.canon(plumpy.Bundle(proc))
                except Exception:  # noqa: BLE001 - the process cannot be saved (see 'spoil')
                    result.counters['probe:save_of_unsavable_process'] += 1
                    touched = True
                    for which, persister in (('memory', memory), ('pickle', pickles)):
                        status, value = _call(persister.save_checkpoint, proc, tag)
                        if status == 'ok':
                            result.violate('save_raises', f'{which}:unsavable_saved', f'{which}: a process that cannot be '
                                                                                       f'bundled was saved without an error')
                    events.append(('save_unsavable', op_index))
                    continue  # nothing stored changes: the model keeps what was there
                in_memory = _call(memory.save_checkpoint, proc, tag)
                if name == 'save_fault':
                    disk.armed = (op[3], op[4])
                    result.counters['fault:open_error' if op[3] == 'open_error' else 'fault:torn_write'] += 1
                on_disk = _call(pickles.save_checkpoint, proc, tag)
                fault_fired = name == 'save_fault' and disk.armed is None
                disk.armed = None
                history.setdefault(key, []).append(snapshot)
                if key in model:
                    overwritten.add(key)
                if in_memory[0] != 'ok':
                    result.violate('save_raises', 'memory', f'InMemoryPersister.save_checkpoint raised {in_memory[1]!r}')
                if on_disk[0] != 'ok':
                    if not fault_fired:
                        result.violate('save_raises', 'pickle', f'PicklePersister.save_checkpoint raised {on_disk[1]!r}')
                    suspect.add(key)
                    events.append(('save_failed', op_index, type(on_disk[1]).__name__))
                else:
                    suspect.discard(key)
                model[key] = snapshot
                progressed_since_save[key] = False
            elif name == 'load':
                pid, tag = pids[op[1]], tags[op[2]]
                key = (pid, tag)
                outcomes = {'memory': _call(memory.load_checkpoint, pid, tag), 'pickle': _call(pickles.load_checkpoint, pid, tag)}
                if key in model:
                    if progressed_since_save.get(key):
                        result.counters['probe:load_after_progress'] += 1
                        touched = True
                    if key in overwritten:
                        result.counters['probe:load_after_overwrite'] += 1
                        touched = True
                else:
                    result.counters['probe:load_absent'] += 1
                for which, (status, value) in outcomes.items():
                    relaxed = which == 'pickle' and key in suspect
                    if relaxed:
                        # the disk copy of this key was hit by an injected fault: it may be gone, torn (load raises) or an
                        # older snapshot of the same key - never anything else
                        if status == 'ok' and canon.canon(value) not in history.get(key, []):
                            result.violate('wrong_data_after_fault', which, f'{which}: load({key_repr(pid, tag)}) returned a '
                                                                            f'snapshot that was never saved under that key')
                        continue
                    if key in model and status == 'ok':
                        got = canon.canon(value)
                        if got != model[key]:
                            diff = canon.first_diff(got, model[key])
                            rule = 'wrong_data_after_fault' if case.get('faults') else 'load_mismatch'
                            result.violate(rule, which, f'{which}: load({key_repr(pid, tag)}) differs from the snapshot '
                                                        f'saved last at {diff[0] if diff else "?"}: {str(diff[1:])[:200] if diff else ""}')
                    elif key in model and status == 'raises':
                        result.violate('load_presence', f'{which}:missing', f'{which}: load({key_repr(pid, tag)}) raised '
                                                                            f'{value!r} although the key was saved')
                    elif key not in model and status == 'ok':
                        result.violate('load_presence', f'{which}:phantom', f'{which}: load({key_repr(pid, tag)}) returned a '
                                                                            f'bundle for a key that is not stored')
                if not (key in suspect) and outcomes['memory'][0] != outcomes['pickle'][0]:
                    result.violate('persisters_disagree', 'load', f'load({key_repr(pid, tag)}): memory {outcomes["memory"][0]}, '
                                                                  f'pickle {outcomes["pickle"][0]}')
                events.append(('load', op_index, outcomes['memory'][0], outcomes['pickle'][0]))
            elif name in ('list', 'listp'):
                if name == 'list':
                    expected = sorted(repr(k) for k in model)
                    outcomes = {'memory': _call(memory.get_checkpoints), 'pickle': _call(pickles.get_checkpoints)}
                else:
                    pid = pids[op[1]]
                    expected = sorted(repr(k) for k in model if k[0] == pid)
                    outcomes = {'memory': _call(memory.get_process_checkpoints, pid),
                                'pickle': _call(pickles.get_process_checkpoints, pid)}
                if overwritten or touched:
                    touched = True
                for which, (status, value) in outcomes.items():
                    if status == 'raises':
                        if which == 'pickle' and suspect:
                            continue  # a torn file makes the directory listing fail: allowed under the relaxed oracle
                        result.violate('listing_mismatch', f'{which}:raises', f'{which}: {name} raised {value!r}')
                        continue
                    got = sorted(repr((c.pid, c.tag)) for c in value)
                    if got != expected:
                        if which == 'pickle' and suspect:
                            extra = set(got) ^ set(expected)
                            if extra <= {repr(k) for k in suspect}:
                                continue
                        result.violate('listing_mismatch', which, f'{which}: {name} returned {got}, stored keys are {expected}')
                    if any(type(c).__name__ != 'PersistedCheckpoint' for c in value):
                        result.violate('listing_mismatch', f'{which}:type', f'{which}: {name} returned {value!r}')
                events.append((name, op_index, len(expected)))
            elif name == 'del':
                pid, tag = pids[op[1]], tags[op[2]]
                key = (pid, tag)
                if key not in model:
                    result.counters['probe:delete_absent'] += 1
                for which, persister in (('memory', memory), ('pickle', pickles)):
                    status, value = _call(persister.delete_checkpoint, pid, tag)
                    if status == 'raises':
                        rule = 'delete_raises' if key in model else 'delete_not_idempotent'
                        result.violate(rule, which, f'{which}: delete_checkpoint({key_repr(pid, tag)}) raised {value!r}')
                model.pop(key, None)
                suspect.discard(key)
                touched = True
            elif name == 'delall':
                pid = pids[op[1]]
                for which, persister in (('memory', memory), ('pickle', pickles)):
                    status, value = _call(persister.delete_process_checkpoints, pid)
                    if status == 'raises':
                        if which == 'pickle' and suspect:
                            # a torn file makes the directory listing (hence this operation) fail: nothing can be assumed
                            # about this pid's files any more
                            events.append(('delall_failed', op_index))
                            for key in list(model):
                                if key[0] == pid:
                                    suspect.add(key)
                        else:
                            result.violate('delete_raises', f'{which}:all', f'{which}: delete_process_checkpoints({pid!r}) '
                                                                            f'raised {value!r}')
                for key in list(model):
                    if key[0] == pid:
                        del model[key]
                touched = True
            elif name == 'advance':
                with loop.running():
                    for _ in range(op[1]):
                        for proc in procs:
                            if proc.paused and not proc.has_terminated():
                                proc.play()  # one more step of a workchain that pauses itself at every step
                        if not loop.step_once():
                            # nothing runnable: resume waiting processes so that they keep changing
                            for proc in procs:
                                if not proc.has_terminated() and proc.state.value == 'waiting':
                                    proc.resume(['rv', 0, 0])
                            if not loop.step_once():
                                break
                for key in progressed_since_save:
                    progressed_since_save[key] = True
            elif name == 'runloaded':
                # a process recreated from a loaded checkpoint runs for a while: the stored snapshot must not notice
                pid, tag = pids[op[1]], tags[op[2]]
                if (pid, tag) in model and (pid, tag) not in suspect:
                    result.counters['probe:ran_process_from_loaded_checkpoint'] += 1
                    touched = True
                    for which, persister in (('memory', memory), ('pickle', pickles)):
                        status, bundle = _call(persister.load_checkpoint, pid, tag)
                        if status != 'ok':
                            continue
                        status, loaded = _call(bundle.unbundle, plumpy.LoadSaveContext(loop=loop))
                        if status != 'ok':
                            result.violate('load_mismatch', f'{which}:unbundle', f'{which}: the loaded checkpoint cannot be '
                                                                                 f'unbundled: {loaded!r}')
                            continue
                        loaded._sim_label = f'loaded-{op_index}-{which}'
                        if not loaded.has_terminated():
                            loop.create_task(loaded.step_until_terminated())
                            with loop.running():
                                for _ in range(op[3]):
                                    if loaded.paused:
                                        loaded.play()
                                    if not loop.step_once():
                                        if not loaded.has_terminated() and loaded.state.value == 'waiting':
                                            loaded.resume(['rv', 0, 0])
                                        else:
                                            break
                            if not loaded.has_terminated():
                                loaded.kill('done with the loaded copy')
                            loop.run_until_quiescent() if False else None
                    for key in progressed_since_save:
                        progressed_since_save[key] = True
            elif name == 'spoil':
                proc = procs[op[1]]
                if not proc.has_terminated():
                    proc.out('spoiled', (item for item in ()))  # a generator can be neither copied nor pickled
                    events.append(('spoiled', op_index))
            elif name == 'restart':
                pickles = _pickle_store(plumpy, directory, case.get('instances'))
            else:
                raise ValueError(name)

        # final cross-check of everything stored (other keys are untouched by whatever happened to one)
        for key, snapshot in sorted(model.items(), key=lambda kv: repr(kv[0])):
            for which, persister in (('memory', memory), ('pickle', pickles)):
                if which == 'pickle' and key in suspect:
                    continue
                status, value = _call(persister.load_checkpoint, key[0], key[1])
                if status != 'ok':
                    if which == 'pickle' and case.get('faults') and suspect:
                        continue
                    result.violate('load_presence', f'{which}:missing', f'{which}: final load({key_repr(*key)}) raised {value!r}')
                elif canon.canon(value) != snapshot:
                    rule = 'wrong_data_after_fault' if case.get('faults') else 'load_mismatch'
                    result.violate(rule, f'{which}:final', f'{which}: final load({key_repr(*key)}) differs from its snapshot')
        result.counters['disk_faults_fired'] += disk.fired
        result.events = list(events)
        for proc in procs:  # leave nothing half-run behind (destructor noise)
            if not proc.has_terminated():
                proc.kill('end of case')
        loop.run_until_quiescent()
        result.sim_time = loop.time()
        result.ticks = loop.tick
        result.nontrivial = touched or bool(overwritten)
    finally:
        persistence_module.__dict__.pop('open', None)
        shutil.rmtree(top, ignore_errors=True)
        seams.reset_world()
        seams.end_case()
    return result

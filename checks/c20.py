# -*- coding: utf-8 -*-
"""C20 - future adapters deliver result, error or cancellation exactly once.

Adapters under test and how each case drives them on the simulated loop:
  plum_kiwi   communications.plum_to_kiwi_future + futures.unwrap_kiwi_future over a chain of asyncio futures resolving to
              futures (chain built from the future class plumpy itself uses, or from loop.create_future())
  kiwi        futures.unwrap_kiwi_future over a chain of kiwipy futures
  rpc_reply   the reply future of Process._schedule_rpc, reached through the public message_receive(KILL) of a process whose
              kill() returns a chain of asyncio futures / raises
  create_task futures.create_task over a coroutine function with seeded awaits ending in a value or an exception
  action      futures.CancellableAction: run once, outcome through itself, refuses a second run and a run after cancel
The environment completes the levels of a chain in a seeded order ("inner before outer" included) at seeded loop positions.
Oracle clauses:
  wrong_outcome    the adapter's future does not end with the outcome of the innermost computation reached (same value /
                   the same exception instance or one caused by it / cancelled)
  not_completed    the loop is quiescent, the chain is complete, and the adapter's future is still pending
  early_completion the adapter's future completed before the innermost reached level did
  leaked_future    the adapter resolved to a future object instead of its outcome
  double_delivery  an InvalidStateError (second completion) reached the loop's exception handler
  action_*         CancellableAction called its function more than once / after cancel, or lost its outcome
"""
import asyncio
import copy
import itertools

import kiwipy

from checks import common
from simkit import comm, programs, seams
from simkit.runner import Result

PROPERTY = 'C20'
LEVEL = 'exploration'
RULE = (
    'cases = adapter x nesting depth 1-4 x outcome (value | exception | cancellation) at a chosen level x completion order '
    'of the levels (any permutation) x loop positions of the completions (same handle, neighbouring handles, virtual '
    'delays).  Systematic part: every permutation and outcome for depth <= 3 of the three chain adapters.  Non-trivial = '
    'depth >= 2 or a non-value outcome; distinct = distinct event-log digest.'
)
BUDGET = {'quick': (100000, 55), 'thorough': (2_000_000, 600)}
COMPONENTS = {
    'real': ['plumpy.futures.create_task / unwrap_kiwi_future / CancellableAction', 'plumpy.communications.plum_to_kiwi_future',
             'plumpy.processes.Process.message_receive / _schedule_rpc', 'kiwipy.Future / capture_exceptions',
             'asyncio futures and tasks (C future class captured by plumpy at import, pure-Python class from the loop)'],
    'stub': ['event loop -> SimLoop', 'communicator thread -> the environment completing futures between loop handles'],
}
ASSUMPTIONS = ['the task that create_task makes is not cancelled from outside (a computation cancelled from within is generated)']
EXPECTED_COUNTERS = ['create_task:from_communicator_thread', 'loop_comm:loop_thread_runs_first', 'adapter:loop_comm', 'adapter:plum_kiwi', 'adapter:kiwi', 'adapter:rpc_reply', 'adapter:create_task', 'adapter:action',
                     'probe:inner_before_outer', 'outcome:value', 'outcome:exc', 'outcome:cancel', 'depth:1', 'depth:2',
                     'depth:3', 'depth:4', 'futures:loop_created', 'futures:plumpy_class']
_sys_cache = {}


class Boom(Exception):
    pass


def systematic(tier):
    if 'all' in _sys_cache:
        return _sys_cache['all']
    cases = []
    for adapter in ('plum_kiwi', 'kiwi', 'rpc_reply'):
        for depth in (1, 2, 3):
            for level in range(depth):
                for outcome in ('value', 'exc', 'cancel'):
                    if outcome == 'value' and level != depth - 1:
                        continue
                    for order in itertools.permutations(range(level + 1)):
                        for gap in (0, 1):
                            for kind in (('plumpy', 'loop') if adapter != 'kiwi' else ('kiwi',)):
                                cases.append({'adapter': adapter, 'depth': depth, 'level': level, 'outcome': outcome,
                                              'order': list(order), 'gaps': [gap] * (level + 1), 'future_kind': kind})
    for inner in ('value', 'cancel'):
        cases.append({'adapter': 'create_task', 'awaits': [0], 'outcome': 'future', 'inner': inner, 'others': 1})
    cases.append({'adapter': 'create_task', 'awaits': [0], 'outcome': 'cancelled', 'others': 1})
    for outcome in ('value', 'exc', 'factory_raises'):
        cases.append({'adapter': 'create_task', 'awaits': [0, 1], 'outcome': outcome, 'others': 1})
        cases.append({'adapter': 'create_task', 'awaits': [0, 1], 'outcome': outcome, 'others': 1, 'from_thread': True})
        cases.append({'adapter': 'create_task', 'awaits': [0, 1], 'outcome': outcome, 'others': 1, 'default_loop': True})
    for kind in ('rpc', 'task', 'broadcast'):
        for outcome in ('value', 'exc'):
            cases.append({'adapter': 'loop_comm', 'kind': kind, 'outcome': outcome, 'awaits': [0, 1]})
            for awaits in ([], [0]):
                cases.append({'adapter': 'loop_comm', 'kind': kind, 'outcome': outcome, 'awaits': awaits, 'eager': True})
    cases.append({'adapter': 'loop_comm', 'kind': 'broadcast', 'outcome': 'value', 'awaits': [], 'filtered': True})
    for scenario in ('run', 'run_raises', 'run_twice', 'cancel_run', 'run_cancel', 'run_raises_twice', 'run_interrupted_twice'):
        cases.append({'adapter': 'action', 'scenario': scenario})
    _sys_cache['all'] = cases
    return cases


def random_case(rng, tier):
    adapter = rng.choice(['plum_kiwi', 'plum_kiwi', 'kiwi', 'rpc_reply', 'rpc_reply', 'create_task', 'action', 'loop_comm'])
    if adapter == 'loop_comm':
        kind = rng.choice(['rpc', 'task', 'broadcast'])
        return {'adapter': 'loop_comm', 'kind': kind, 'outcome': rng.choice(['value', 'exc']),
                'awaits': [rng.choice([0, 0.5, 1]) for _ in range(rng.randint(0, 3))],
                'filtered': kind == 'broadcast' and rng.random() < 0.4, 'eager': rng.random() < 0.5}
    if adapter == 'action':
        return {'adapter': 'action', 'scenario': rng.choice(['run', 'run_raises', 'run_twice', 'cancel_run', 'run_cancel',
                                                             'run_raises_twice', 'run_interrupted_twice'])}
    if adapter == 'create_task':
        return {'adapter': 'create_task', 'awaits': [rng.choice([0, 0.5, 1]) for _ in range(rng.randint(0, 3))],
                'outcome': rng.choice(['value', 'value', 'exc', 'factory_raises', 'future', 'cancelled']), 'inner': rng.choice(['value', 'cancel']),
                'others': rng.randint(0, 2),
                'from_thread': rng.random() < 0.4, 'default_loop': rng.random() < 0.25}
    depth = rng.randint(1, 4)
    outcome = rng.choice(['value', 'value', 'exc', 'cancel'])
    level = depth - 1 if outcome == 'value' else rng.randrange(depth)
    order = list(range(level + 1))
    rng.shuffle(order)
    gaps = [rng.choice([0, 0, 1, 2]) for _ in order]
    kind = 'kiwi' if adapter == 'kiwi' else rng.choice(['plumpy', 'loop'])
    return {'adapter': adapter, 'depth': depth, 'level': level, 'outcome': outcome, 'order': order, 'gaps': gaps,
            'future_kind': kind, 'delay': rng.choice([0, 0, 0.5])}


def shrink(case):
    if case['adapter'] in ('plum_kiwi', 'kiwi', 'rpc_reply'):
        if case['level'] > 0:
            candidate = copy.deepcopy(case)
            candidate['level'] -= 1
            candidate['depth'] = max(candidate['level'] + 1, 1) if case['outcome'] == 'value' else case['depth']
            candidate['order'] = [o for o in case['order'] if o <= candidate['level']]
            candidate['gaps'] = case['gaps'][: len(candidate['order'])]
            yield candidate
        if any(case['gaps']):
            candidate = copy.deepcopy(case)
            candidate['gaps'] = [0] * len(case['gaps'])
            yield candidate
        if case['order'] != sorted(case['order']):
            candidate = copy.deepcopy(case)
            candidate['order'] = sorted(case['order'])
            yield candidate
        if case.get('delay'):
            candidate = copy.deepcopy(case)
            candidate['delay'] = 0
            yield candidate


def run(case):
    result = Result()
    plumpy = common.plumpy()
    seams.begin_case()
    loop = seams.new_loop(max_ticks=5000)
    events = []
    try:
        adapter = case['adapter']
        result.counters[f'adapter:{adapter}'] += 1
        if adapter == 'action':
            _run_action(case, plumpy, result, events)
        elif adapter == 'create_task':
            _run_create_task(case, plumpy, loop, result, events)
        elif adapter == 'loop_comm':
            _run_loop_comm(case, plumpy, loop, result, events)
        else:
            _run_chain(case, plumpy, loop, result, events)
        for context in loop.exc_contexts:
            if 'InvalidStateError' in repr(context.get('exception')) or 'invalid state' in str(context.get('exception')).lower():
                result.violate('double_delivery', adapter, f'a second completion reached the loop: {context.get("message")} '
                                                          f'{context.get("exception")!r}')
        result.events = events
        result.sim_time = loop.time()
        result.ticks = loop.tick
    finally:
        seams.reset_world()
        seams.end_case()
    return result


def _new_future(kind, plumpy, loop):
    if kind == 'kiwi':
        return kiwipy.Future()
    if kind == 'loop':
        return loop.create_future()
    return plumpy.futures.Future()


def _run_chain(case, plumpy, loop, result, events):
    adapter, depth, level, outcome = case['adapter'], case['depth'], case['level'], case['outcome']
    kind = case.get('future_kind', 'plumpy')
    result.counters[f'depth:{depth}'] += 1
    result.counters[f'outcome:{outcome}'] += 1
    result.counters['futures:loop_created' if kind == 'loop' else 'futures:plumpy_class' if kind == 'plumpy' else 'futures:kiwi'] += 1
    result.nontrivial = depth >= 2 or outcome != 'value'
    chain = [_new_future(kind, plumpy, loop) for _ in range(level + 1)]
    boom = Boom(f'level {level}')
    proc = None
    with loop.running():
        if adapter == 'plum_kiwi':
            final = plumpy.futures.unwrap_kiwi_future(plumpy.plum_to_kiwi_future(chain[0]))
        elif adapter == 'kiwi':
            final = plumpy.futures.unwrap_kiwi_future(chain[0])
        else:
            class Replier(plumpy.Process):
                def kill(self, msg_text=None):
                    events.append(('handler', msg_text))
                    return chain[0]

            proc = Replier(loop=loop)
            final = proc.message_receive(None, plumpy.MessageBuilder.kill(text='go'))

        completed_at = {}
        final_done_at = [None]

        def watch(_):
            final_done_at[0] = len(events)

        final.add_done_callback(watch)

        def complete(index):
            future = chain[index]
            events.append(('complete', index))
            completed_at[index] = len(events)
            if index < level:
                future.set_result(chain[index + 1])
            elif outcome == 'value':
                future.set_result(('payload', level))
            elif outcome == 'exc':
                future.set_exception(boom)
            else:
                future.cancel()

        if any(case['order'][i] > case['order'][i + 1] for i in range(len(case['order']) - 1)):
            result.counters['probe:inner_before_outer'] += 1
        for index, gap in zip(case['order'], case['gaps']):
            for _ in range(gap):
                if not loop.step_once():
                    break
            if case.get('delay'):
                loop.call_later(case['delay'], complete, index)
                while not (index in completed_at):
                    if not loop.step_once():
                        break
            else:
                complete(index)
        while loop.step_once():
            pass
        if proc is not None and not proc.has_terminated():
            proc.close()

    got = comm.unwrap(final, depth=1)
    events.append(('final', got[0]))
    if got[0] == 'pending':
        result.violate('not_completed', f'{adapter}:{outcome}', f'{adapter} depth {depth}: every level up to {level} is complete '
                                                                f'({outcome}) but the adapter future is still pending')
        return
    if final_done_at[0] is not None and final_done_at[0] < max(completed_at.values()) and len(completed_at) == level + 1:
        last = max(completed_at.values())
        # the adapter may complete as soon as the chain is resolvable: all levels 0..level must have completed before
        if final_done_at[0] < last and any(completed_at[i] > final_done_at[0] for i in range(level + 1)):
            result.violate('early_completion', adapter, f'the adapter future completed before levels '
                                                        f'{[i for i in range(level + 1) if completed_at[i] > final_done_at[0]]} did')
    if outcome == 'value':
        if got[0] == 'value' and (asyncio.isfuture(got[1]) or isinstance(got[1], kiwipy.Future)):
            result.violate('leaked_future', f'{adapter}:{kind}', f'{adapter} over {kind} futures, depth {depth}: resolved to the '
                                                                 f'future object {got[1]!r} instead of its result')
        elif got != ('value', ('payload', level)):
            result.violate('wrong_outcome', f'{adapter}:value', f'expected the innermost value, got {got!r}')
    elif outcome == 'exc':
        ok = False
        if final.done() and not final.cancelled() and final.exception() is not None:
            exc = final.exception()
            seen = 0
            while exc is not None and seen < 6:
                if exc is boom or (adapter == 'rpc_reply' and str(boom) in str(exc)):
                    ok = True
                    break
                exc = exc.__cause__ or exc.__context__
                seen += 1
        if got[0] == 'value' and (asyncio.isfuture(got[1]) or isinstance(got[1], kiwipy.Future)):
            result.violate('leaked_future', f'{adapter}:{kind}', f'{adapter} over {kind} futures: resolved to a future object')
        elif not ok:
            result.violate('wrong_outcome', f'{adapter}:exc', f'expected the exception of level {level}, got {got!r}')
    else:
        if got[0] == 'value' and (asyncio.isfuture(got[1]) or isinstance(got[1], kiwipy.Future)):
            result.violate('leaked_future', f'{adapter}:{kind}', f'{adapter} over {kind} futures: resolved to a future object')
        elif got != ('cancelled',):
            result.violate('wrong_outcome', f'{adapter}:cancel', f'level {level} was cancelled, the adapter future ended {got!r}')


def _run_create_task(case, plumpy, loop, result, events):
    boom = Boom('coroutine')
    result.counters[f'outcome:{case["outcome"]}'] += 1
    result.nontrivial = bool(case['awaits']) or case['outcome'] != 'value'
    calls = [0]

    async def coro():
        calls[0] += 1
        events.append(('coro', 'start'))
        for duration in case['awaits']:
            await asyncio.sleep(duration)
            events.append(('coro', 'woke', loop.time()))
        if case['outcome'] == 'exc':
            raise boom
        if case['outcome'] == 'cancelled':
            # the computation is cancelled from the inside: it awaits something that gets cancelled (asyncio.CancelledError)
            doomed = loop.create_future()
            loop.call_later(0.25, doomed.cancel)
            await doomed
        if case['outcome'] == 'future':
            # the coroutine's result is itself a loop future (it completes, or is cancelled, later): a value like any other
            inner = loop.create_future()
            inner_box.append(inner)
            loop.call_later(0.5, inner.cancel if case.get('inner') == 'cancel' else (lambda: inner.set_result('inner')))
            return inner
        return ('payload', len(case['awaits']))

    inner_box = []

    async def other(index):
        await asyncio.sleep(0.25 * (index + 1))
        events.append(('other', index))

    def raising_factory():
        # the callable handed to create_task fails before there is any coroutine (e.g. called with the wrong arguments)
        calls[0] += 1
        raise boom

    early = None
    if case.get('default_loop'):
        # scheduled by synchronous code before the loop runs, without naming the loop (the current one is meant)
        result.counters['create_task:default_loop_before_running'] += 1
        try:
            early = plumpy.futures.create_task(raising_factory if case['outcome'] == 'factory_raises' else coro)
        except Exception as exc:  # noqa: BLE001
            result.violate('wrong_outcome', 'create_task:default_loop', f'create_task without a loop, called before the loop '
                                                                        f'runs, raised {exc!r}')
            return
    with loop.running():
        for index in range(case.get('others', 0)):
            loop.create_task(other(index))
        factory = raising_factory if case['outcome'] == 'factory_raises' else coro
        if early is not None:
            future = early
        elif case.get('from_thread'):
            # called the way LoopCommunicator calls it: from the communicator's thread, which has no event loop of its own
            result.counters['create_task:from_communicator_thread'] += 1
            try:
                with loop.foreign_thread():
                    future = plumpy.futures.create_task(factory, loop)
            except Exception as exc:  # noqa: BLE001
                result.violate('wrong_outcome', 'create_task:from_thread',
                               f'create_task called from another thread than the loop\'s raised {exc!r}')
                return
            if loop.thread_violations:
                result.violate('thread_unsafe_scheduling', 'create_task', f'create_task scheduled on the loop from another '
                                                                          f'thread through {loop.thread_violations[:2]}')
        else:
            future = plumpy.futures.create_task(factory, loop)
        if future.done():
            result.violate('early_completion', 'create_task', 'the future was done before the coroutine ran')
        while loop.step_once():
            pass
    got = comm.unwrap(future, depth=1)
    events.append(('final', got[0]))
    if calls[0] != 1:
        result.violate('wrong_outcome', 'create_task:calls', f'the coroutine function was called {calls[0]} times')
    if case['outcome'] == 'cancelled':
        if not future.cancelled():
            result.violate('wrong_outcome' if future.done() else 'not_completed', 'create_task:cancelled',
                           f'the scheduled computation was cancelled; the future of create_task ended with {got!r}')
        return
    if case['outcome'] == 'future':
        if not (future.done() and not future.cancelled() and future.exception() is None and inner_box
                and future.result() is inner_box[0]):
            result.violate('wrong_outcome' if future.done() else 'not_completed', 'create_task:future_result',
                           f'the coroutine returned a future; the future of create_task ended with {got!r} instead of that object')
        return
    if case['outcome'] == 'value' and got != ('value', ('payload', len(case['awaits']))):
        result.violate('wrong_outcome' if got[0] != 'pending' else 'not_completed', 'create_task:value', f'got {got!r}')
    if case['outcome'] in ('exc', 'factory_raises') and not (future.done() and not future.cancelled()
                                                             and future.exception() is boom):
        result.violate('wrong_outcome' if got[0] != 'pending' else 'not_completed', f'create_task:{case["outcome"]}',
                       f'got {got!r}')


def _run_loop_comm(case, plumpy, loop, result, events):
    """plumpy's LoopCommunicator around the simulated transport: a coroutine subscriber (rpc / task / broadcast) is called
    from the communicator's thread, runs on the loop, and its outcome comes back through the reply future."""
    transport = comm.SimCommunicator(loop)
    wrapped = plumpy.wrap_communicator(transport, loop)
    loop.eager_loop_thread = bool(case.get('eager'))  # which thread wins the race after call_soon_threadsafe
    if case.get('eager'):
        result.counters['loop_comm:loop_thread_runs_first'] += 1
    boom = Boom('subscriber')
    kind = case['kind']
    result.counters[f'loop_comm:{kind}:{case["outcome"]}'] += 1
    result.nontrivial = True
    calls = []

    async def subscriber(_comm, *args, **kwargs):
        calls.append((args, sorted(kwargs)))
        events.append(('subscriber', 'start', len(calls)))
        for duration in case['awaits']:
            await asyncio.sleep(duration)
            events.append(('subscriber', 'woke', loop.time()))
        if case['outcome'] == 'exc':
            raise boom
        return ('answer', len(case['awaits']))

    reply = None
    with loop.running():
        if kind == 'rpc':
            wrapped.add_rpc_subscriber(subscriber, 'target')
            reply = transport.rpc_send('target', {'q': 1})
        elif kind == 'task':
            wrapped.add_task_subscriber(subscriber)
            reply = transport.task_send({'job': 1})
        else:
            if case.get('filtered'):
                # (kiwipy's filter calls its subscriber synchronously: a plain function, as Process.broadcast_receive is)
                def plain(_comm, *args, **kwargs):
                    calls.append((args, sorted(kwargs)))
                    events.append(('subscriber', 'plain', len(calls)))

                wrapped.add_broadcast_subscriber(kiwipy.BroadcastFilter(plain, subject='wanted.*'))
            else:
                wrapped.add_broadcast_subscriber(subscriber)
            transport.broadcast_send({'b': 1}, sender='someone', subject='wanted.now')
            if case.get('filtered'):
                transport.broadcast_send({'b': 2}, sender='someone', subject='other')
        while loop.step_once():
            pass
        transport.net.flush()
        while loop.step_once():
            pass
    if loop.thread_violations:
        result.violate('thread_unsafe_scheduling', f'loop_comm:{kind}', f'subscriber scheduled from the communicator\'s thread '
                                                                        f'through {loop.thread_violations[:2]}')
    if len(calls) != 1:
        result.violate('wrong_outcome', f'loop_comm:{kind}:calls', f'the subscriber coroutine ran {len(calls)} times '
                                                                   f'(loop exception contexts: {loop.exc_contexts[:1]})')
    if reply is not None:
        got = comm.unwrap(reply)
        events.append(('final', got[0]))
        if case['outcome'] == 'value' and got != ('value', ('answer', len(case['awaits']))):
            result.violate('wrong_outcome' if got[0] != 'pending' else 'not_completed', f'loop_comm:{kind}:value', f'got {got!r}')
        if case['outcome'] == 'exc' and not (got[0] == 'exception' and ('subscriber' in got[2] or got[1] == 'Boom')):
            result.violate('wrong_outcome' if got[0] != 'pending' else 'not_completed', f'loop_comm:{kind}:exc', f'got {got!r}')


def _run_action(case, plumpy, result, events):
    scenario = case['scenario']
    result.nontrivial = True
    calls = []
    boom = Boom('action')

    def fn(*args, **kwargs):
        calls.append((args, kwargs))
        if 'interrupted' in scenario:
            raise asyncio.CancelledError()  # the function is left by a BaseException that is not an Exception
        if 'raises' in scenario:
            raise boom
        return ('did', args, kwargs)

    action = plumpy.futures.CancellableAction(fn, cookie='cookie')
    events.append(('scenario', scenario))
    if action.cookie != 'cookie':
        result.violate('action_cookie', scenario, f'cookie is {action.cookie!r}')

    def attempt(*args, **kwargs):
        try:
            action.run(*args, **kwargs)
            return None
        except BaseException as exc:  # noqa: BLE001
            return exc

    if scenario == 'run_interrupted_twice':
        first = attempt(1)
        if not isinstance(first, asyncio.CancelledError):
            result.violate('action_outcome', scenario, f'the interruption of the function did not come out of run(): {first!r}')
        attempt(2)
        if len(calls) != 1:
            result.violate('action_calls', scenario, f'the function was called {len(calls)} times: an action runs its function at most '
                                                     f'once, also when the first run was interrupted')
        events.append(('calls', len(calls)))
        return

    if scenario in ('run', 'run_raises', 'run_twice', 'run_cancel', 'run_raises_twice'):
        first = attempt(1, k=2)
        if first is not None:
            result.violate('action_outcome', scenario, f'the first run() raised {first!r}')
        if len(calls) != 1 or calls[0] != ((1,), {'k': 2}):
            result.violate('action_calls', scenario, f'function calls after the first run: {calls!r}')
        if 'raises' in scenario:
            if not (action.done() and not action.cancelled() and action.exception() is boom):
                result.violate('action_outcome', scenario, f'the exception did not come through the action: {action!r}')
        elif not (action.done() and not action.cancelled() and action.exception() is None
                  and action.result() == ('did', (1,), {'k': 2})):
            result.violate('action_outcome', scenario, f'the result did not come through the action: {action!r}')
        if scenario in ('run_twice', 'run_raises_twice'):
            second = attempt(3)
            if second is None:
                result.violate('action_second_run', scenario, 'a second run() was accepted')
            if len(calls) != 1:
                result.violate('action_calls', scenario, f'the function was called {len(calls)} times')
        if scenario == 'run_cancel':
            action.cancel()
            if action.cancelled() or action.result() != ('did', (1,), {'k': 2}):
                result.violate('action_outcome', scenario, 'cancel() after run() changed the outcome')
    elif scenario == 'cancel_run':
        action.cancel()
        outcome = attempt(1)
        if outcome is None:
            result.violate('action_run_after_cancel', scenario, 'run() after cancel() was accepted')
        if calls:
            result.violate('action_calls', scenario, 'the function was called after cancel()')
        if not action.cancelled():
            result.violate('action_outcome', scenario, f'the cancelled action is {action!r}')
    events.append(('calls', len(calls)))

# -*- coding: utf-8 -*-
"""C05 - pause/play is transparent: nothing runs while paused, no step lost or repeated.

Oracle clauses:
  pause_raises / play_raises   pause()/play() never raise
  step_while_paused            no step function/continuation is entered (or resumed after an await) while the
                               process reports paused
  pause_ignored                an accepted pause that was not withdrawn takes effect at the next step boundary (no new step
                               is entered before a play)
  play_not_playing             play() returns True and leaves the process un-paused
  paused_after_play            ... and cancels a pause that has not yet taken effect: the process does not
                               become paused after a play() until pause() is requested again
  trace_differs                the sequence of executed steps (with arguments and the status they see) equals
                               that of the uninterrupted run
  outcome_differs              outputs, final state, result and final status equal those of the uninterrupted run
"""
from checks import common
from simkit import programs
from simkit.loop import TickLimit
from simkit.runner import Result

PROPERTY = 'C05'
LEVEL = 'exploration'
RULE = (
    'cases = generated process program x schedule of up to K pause/play/resume requests placed before any loop handle '
    '(several at one position in every order) or at quiescence, completed by a final play; reference = same program, '
    'same scripted resume values, no requests, run in the same simulator.  Systematic part: every sequence of <=2 '
    '(quick) / <=3 (thorough) requests at every position of 5 canonical programs.  Non-trivial = a request landed '
    'while live and stepping, paused, waiting or with another request pending; distinct = distinct event-log digest.'
)
BUDGET = {'quick': (150000, 55), 'thorough': (4_000_000, 600)}
COMPONENTS = common.COMPONENTS
ASSUMPTIONS = [
    'FIFO ready queue; requests are placed between loop handles, not inside listener callbacks (as quantified)',
    'callbacks scheduled by steps do not fail (a failing callback legitimately ends the run at a schedule-dependent point)',
]
EXPECTED_COUNTERS = ['probe:pause_from_played_notification', 'kind:workchain', 'probe:pause_mid_step', 'probe:play_while_pause_pending', 'probe:pause_in_waiting_step',
                     'probe:resume_while_paused', 'probe:pause_then_play_same_position']
KINDS = ['pause', 'play', 'resume']
PROGRAM_CFG = {
    'max_steps': 4,
    'rets': ['value', 'value', 'stop', 'unsuccessful', 'kill', 'raise'],
    'effects': ['out', 'status', 'status', 'callsoon'],
    'selfacts': ['pause', 'play'],
    'p_selfact': 0.1,
}
_sys_cache = {}


def systematic(tier):
    if tier in _sys_cache:
        return _sys_cache[tier]
    cases = []
    max_len = 2 if tier == 'quick' else 3
    for name, program in programs.canonical_programs().items():
        ticks, notify, _ = common.dry_run(program)
        for schedule in common.systematic_schedules(KINDS, list(range(0, ticks + 1)), max_len):
            if not any(a['act'] in ('pause', 'play') for a in schedule):
                continue
            cases.append({'program': program, 'schedule': schedule, 'opts': {'final_play': True}, 'origin': f'systematic:{name}'})
        # alternating pause/play bursts at one position (every interruption still in flight when the next request arrives)
        for pos in range(0, ticks + 1):
            for repeats in (2, 3):
                for tail in ((), ('pause',)):
                    burst = ['pause', 'play'] * repeats + list(tail)
                    cases.append({'program': program, 'schedule': [{'act': kind, 'at': pos} for kind in burst],
                                  'opts': {'final_play': True}, 'origin': f'systematic:{name}:burst'})
        # pauses requested from inside the notifications of a pause / play pair placed at every position
        for pos in range(0, ticks + 1):
            for gap in (0, 1):
                for event in ('played', 'paused', 'running', 'waiting'):
                    if event in ('running', 'waiting') and not notify.get(event):
                        continue
                    schedule = [{'act': 'pause', 'at': pos}, {'act': 'play', 'at': pos + gap}, {'act': 'pause', 'on': [event, 0]}]
                    cases.append({'program': program, 'schedule': schedule, 'opts': {'final_play': True},
                                  'origin': f'systematic:{name}:listener'})
    _sys_cache[tier] = cases
    return cases


def random_case(rng, tier):
    kinds = KINDS
    if rng.random() < 0.25:
        program = common.gen_workchain_with_awaitables(rng)
        kinds = ['pause', 'pause', 'play', 'complete']
    else:
        program = programs.gen_process_program(rng, PROGRAM_CFG)
    ticks, notify, _ = common.dry_run(program)
    max_actions = 4 if tier == 'quick' else 6
    schedule = common.gen_schedule(rng, kinds, max_actions, ticks, notify, p_listener=0.12 if rng.random() < 0.5 else 0.0,
                                   must=['pause', 'play'])
    for action in schedule:
        if 'on' in action and action['act'] != 'pause':
            # only pause requests are also issued from inside listener notifications; play and resume stay between loop
            # callbacks, as the property quantifies (a pause issued from inside the 'played' notification legitimately leaves
            # that play() returning on a paused process: the oracle knows)
            action.pop('on')
            action['at'] = rng.randint(0, ticks + 1)
    if rng.random() < 0.1 and any(a['act'] == 'play' for a in schedule):
        schedule.append({'act': 'pause', 'on': ['played', 0]})
    for action in schedule:
        if action['act'] == 'complete':
            # completes with the value the drive-out would use, so that the context is the same in every run
            fut = rng.randrange(max(program.get('n_futures', 1), 1))
            action.update(fut=fut, how='value', v=f'v{fut}')
    for action in schedule:
        if action['act'] == 'pause':
            action['msg'] = rng.choice([None, '', 'paused-by-env', 'p2'])
    case = {'program': program, 'schedule': schedule, 'opts': common.with_communicator(rng, {'final_play': True})}
    if program.get('kind') != 'workchain' and rng.random() < 0.1:
        # a caller that gives up on its pause request (asyncio.wait_for(proc.pause(), t) timing out cancels the future it got),
        # followed - or not - by a fresh request in the same step: the withdrawn one must not swallow the new one
        pos = rng.randint(0, ticks + 1)
        burst = [{'act': 'pause', 'at': pos, 'msg': 'given-up'}, {'act': 'giveup', 'at': pos + rng.choice([0, 0, 1])}]
        if rng.random() < 0.7:
            burst.append({'act': 'pause', 'at': burst[-1]['at'] + rng.choice([0, 0, 1]), 'msg': 'again'})
        schedule.extend(burst)
    if rng.random() < 0.12:
        case['disturbed'] = True
        extra = common.gen_schedule(rng, ['kill', 'fail', 'cancel_stepper', 'cancel_stepper', 'restep', 'pause', 'play'], 3, ticks, notify,
                                    p_listener=0.0)
        case['schedule'] = schedule + extra
        for action in case['schedule']:
            if 'on' in action:  # requests from between loop callbacks only (a pause from the 'played' notification re-pauses)
                action.pop('on')
                action['at'] = rng.randint(0, ticks + 1)
    return case


def shrink(case):
    if case['program'].get('kind') == 'workchain':
        import copy
        for i in range(len(case['schedule'])):
            candidate = copy.deepcopy(case)
            del candidate['schedule'][i]
            yield candidate
        for i, action in enumerate(case['schedule']):
            if action.get('at', 0) > 0:
                candidate = copy.deepcopy(case)
                candidate['schedule'][i]['at'] = action['at'] - 1
                yield candidate
        return
    yield from common.shrink_control(case)


def _run_disturbed(case):
    """Runs in which the process is also killed, failed or abandoned by whoever steps it: nothing is left of 'identical to
    the uninterrupted run', but pause() and play() still never raise, whatever state that left the process in, and a play()
    on a live process leaves it un-paused."""
    result = Result()
    engine = common.new_engine(case, record_hooks=False)
    try:
        if not engine.start():
            raise RuntimeError(f'construction failed: {engine.construct_error!r}')
        try:
            engine.run_schedule()
            for kind in ('play', 'pause', 'play'):
                engine.extra_action({'act': kind}, where='epilogue')
                engine.run_to_quiescence()
        except TickLimit as exc:
            result.violate('outcome_differs', 'runaway', f'the run does not come to rest: {exc}')
        result.counters['disturbed_runs'] += 1
        for record in engine.records:
            kind = record.action['act']
            if kind in ('pause', 'play') and record.raised is not None:
                result.violate(f'{kind}_raises', f'{type(record.raised).__name__}@{record.context}',
                               f'{kind}() raised {record.raised!r} in context {record.context} (the process had been '
                               f'killed, failed or abandoned by its stepper before)')
            if kind == 'play' and record.raised is None and record.pre_live and record.where == 'epilogue' \
                    and (record.result is not True or record.post_paused):
                result.violate('play_not_playing', record.context, f'play() returned {record.result!r}, paused afterwards='
                                                                   f'{record.post_paused}')
        common.finish_result(engine, result)
        result.nontrivial = True
    finally:
        common.close_engine(engine)
    return result


def run(case):
    if case.get('disturbed'):
        return _run_disturbed(case)
    result = Result()
    try:
        reference = common.reference_run(case['program'], case.get('opts'))
    except TickLimit as exc:
        # the program issues pause/play requests itself; even without any request from outside it does not come to rest
        result.violate('outcome_differs', 'runaway', f'the run without requests from outside does not come to rest: {exc}')
        result.events = []
        return result
    engine = common.new_engine(case, record_hooks=False)
    try:
        if not engine.start():
            raise RuntimeError(f'construction failed: {engine.construct_error!r}')
        try:
            engine.run_schedule()
            drive = engine.drive_out()
        except TickLimit as exc:
            # the uninterrupted run of this program takes a few dozen loop handles: a run that does not quiesce within
            # thousands is not "identical to the uninterrupted run"
            result.violate('outcome_differs', 'runaway', f'the run does not come to rest: {exc}')
            drive = 'runaway'
        else:
            _oracle(engine, result, reference, drive)
        common.finish_result(engine, result)
        result.nontrivial = common.nontrivial_by_context(engine)
    finally:
        common.close_engine(engine)
    return result


def _oracle(engine, result, reference, drive):
    world, proc = engine.world, engine.proc
    events = world.events

    if engine.case['program'].get('kind') == 'workchain':
        result.counters['kind:workchain'] += 1
    same_position = {}
    for record in engine.records:
        kind = record.action['act']
        if record.where in ('between', 'idle') and record.pre_live:
            if kind == 'pause' and 'stepping' in record.context:
                result.counters['probe:pause_mid_step'] += 1
                if record.context.startswith('waiting'):
                    result.counters['probe:pause_in_waiting_step'] += 1
            if kind == 'play' and 'pausing' in record.context:
                result.counters['probe:play_while_pause_pending'] += 1
            if kind == 'resume' and 'paused' in record.context:
                result.counters['probe:resume_while_paused'] += 1
            if kind == 'play' and same_position.get(record.tick) == 'pause':
                result.counters['probe:pause_then_play_same_position'] += 1
            same_position[record.tick] = kind

        # pause()/play() never raise
        if kind in ('pause', 'play') and record.raised is not None:
            result.violate(f'{kind}_raises', f'{type(record.raised).__name__}@{record.context}',
                           f'{kind}() raised {record.raised!r} in context {record.context}')
        if kind == 'play' and record.raised is None and record.pre_live:
            # (a pause requested from inside the 'played' notification of this very call is a new request, made after the
            # process was un-paused: being paused again when play() returns is then what was asked for)
            done = next((j for j in range(record.seq, len(events)) if events[j][0] == 'acted' and events[j][1] == record.index),
                        len(events))
            nested_pause = any(e[0] == 'call' and e[2] == 'pause' for e in events[record.seq:done])
            if nested_pause:
                result.counters['probe:pause_from_played_notification'] += 1
            if record.result is not True or (record.post_paused and not nested_pause):
                result.violate('play_not_playing', record.context,
                               f'play() returned {record.result!r}, paused afterwards={record.post_paused}')
    for kind, live, value in world.self_results:
        if kind in ('pause', 'play') and isinstance(value, BaseException):
            result.violate(f'{kind}_raises', f'{type(value).__name__}@self', f'{kind}() inside a step raised {value!r}')

    # nothing runs while paused; a played process stays un-paused until the next pause request
    last_control = None
    last_context = None
    for event in events:
        tag = event[0]
        if tag == 'call' and event[2] in ('pause', 'play'):
            last_control = event[2]
        elif tag == 'act':
            last_context = event
        elif tag in ('step', 'resumed', 'wstep'):
            paused = event[5] if tag == 'step' else event[4]
            if paused:
                result.violate('step_while_paused', f'{tag}',
                               f'{tag} of {event[2]} executed while the process reported paused')
        elif tag == 'sample' and event[2] and not event[3]:  # paused and live
            if last_control != 'pause':
                result.violate('paused_after_play', f'after:{last_control}',
                               f'process became paused although the last request was {last_control!r}')
        elif tag == 'notify' and event[2] == 'paused' and last_control != 'pause':
            result.violate('paused_after_play', f'after:{last_control}',
                           f'process paused although the last request was {last_control!r}')

    # a pause that was accepted and not withdrawn takes effect at the next step boundary: no NEW step is entered before a play
    pending = None
    for event in events:
        tag = event[0]
        if tag == 'acted' and event[2] == 'pause' and event[3] in ('True', 'future'):
            pending = event
        elif tag == 'selfact' and event[2] == 'pause' and event[4] in ('True', 'future'):
            pending = event
        elif tag == 'call' and event[2] == 'play':
            pending = None
        elif tag == 'acted' and event[2] == 'giveup' and event[3] == 'True':
            pending = None  # the caller cancelled the future of the outstanding request: withdrawn
            result.counters['probe:pause_given_up'] += 1
        elif tag in ('step', 'wstep') and pending is not None:
            result.violate('pause_ignored', tag, f'{event[2]} was entered although a pause had been requested (and accepted) and '
                                                 f'no play() had been called since')
            break

    # transparency
    got = common.user_trace(events)
    want = reference['trace']
    diff = common.first_difference(got, want)
    if diff is not None:
        index, kind = diff
        result.violate('trace_differs', kind,
                       f'executed steps differ from the uninterrupted run at #{index}: '
                       f'got {got[index] if index < len(got) else None!r} want '
                       f'{want[index] if index < len(want) else None!r} (drive-out: {drive})')
    if drive != 'terminated' and reference['drive'] == 'terminated':
        result.violate('outcome_differs', f'{drive}', f'the run did not complete after the final play: {drive} '
                                                      f'(state {proc.state.value}, paused={proc.paused})')
    else:
        mine = common.outcome(proc)
        theirs = reference['outcome']
        for key in sorted(set(mine) | set(theirs)):
            if mine.get(key) != theirs.get(key):
                result.violate('outcome_differs', key, f'{key}: {mine.get(key)!r} != uninterrupted {theirs.get(key)!r}')
                break

# -*- coding: utf-8 -*-
"""C18 - Process.current() is the process whose code is running.

2-4 top-level processes with async steps of seeded virtual durations step concurrently on one simulated loop; steps launch
children (Process.launch), execute children re-entrantly (child.execute() inside a step, i.e. a nested run of the loop),
schedule call_soon callbacks and emit outputs.  Every piece of generated user code is a probe.
Oracle clauses:
  current_in_step / current_after_await / current_in_callback / current_in_output_hook
                            a probe inside code of process P does not see Process.current() is P
  current_after_nested      after a nested child.execute() returned, the parent's code does not see the parent again
  current_inside_nested     between two handles run by a nested loop (on the stack of P's step) current() is not P
  current_between_handles   with no process code on the stack (between two handles of the outer loop) current() is not None
  current_in_hook           inside a state-transition / pause / play / create hook of P current() is not P
                            (KNOWN FINDING on this tree, one entry per hook: see known_findings.json)
"""
import copy

from checks import common
from simkit import programs, seams
from simkit.runner import Result

PROPERTY = 'C18'
LEVEL = 'exploration'
RULE = (
    'cases = 2-4 generated top-level process programs started at seeded virtual times, each with async steps (0-2 awaits of '
    'seeded virtual durations), children launched from steps, children executed re-entrantly from steps (nesting <= 2), '
    'call_soon callbacks and outputs; the virtual durations decide the interleaving under FIFO.  Every step entry, await '
    'return, callback, hook and nested return is a probe; a sampler runs between all handles (outer and nested loops).  '
    'Non-trivial = handles of at least two processes interleave inside one step, or a nested execute / launched child '
    'occurs; distinct = distinct event-log digest.'
)
BUDGET = {'quick': (28000, 55), 'thorough': (1_500_000, 600)}
COMPONENTS = {
    'real': ['plumpy.processes.Process (_process_scope, _run_task, call_soon, launch, execute, PROCESS_STACK contextvar)',
             'plumpy.events.ProcessCallback', 'contextvars (per-handle contexts of CPython asyncio)',
             'nested loop runs (SimLoop.run_until_complete is re-entrant like a nest_asyncio-patched loop)'],
    'stub': common.COMPONENTS['stub'],
}
ASSUMPTIONS = ['FIFO ready queue', 'hooks are probed in the generated subclasses before delegating to super()']
EXPECTED_COUNTERS = ['probe:started_in_step_finished_at_top_level', 'probe:waiting_step_interrupted', 'probe:callback_on_parent', 'probe:step', 'probe:after_await', 'probe:callback', 'probe:hook', 'probe:after_nested', 'probe:launched',
                     'sample:between_handles', 'sample:inside_nested', 'interleaved_runs', 'nested_depth2']
HOOK_OUTPUT = ('on_output_emitting', 'on_output_emitted')


def systematic(tier):
    return []


def gen_program(rng, depth, children_pool):
    cfg = {'max_steps': 3, 'p_async': 0.8, 'max_awaits': 2, 'rets': ['value', 'value', 'stop', 'raise', 'kill'],
           'effects': ['out', 'callsoon', 'status'], 'p_wait': 0.2, 'durations': [0, 0.5, 1, 1.5, 2],
           'selfacts': ['pause'], 'p_selfact': 0.15, 'coro_callbacks': True}
    program = programs.gen_process_program(rng, cfg)
    program['children'] = []
    if depth > 0:
        # children sometimes schedule a callback on the process that started them
        serial = 0
        for step in program['steps']:
            for group in step['effects']:
                if rng.random() < 0.3:
                    serial += 1
                    group.append({'e': 'callsoon_parent', 'id': f'{depth}.{serial}', 'coro': rng.random() < 0.5})
    if depth < 2:
        for step in program['steps']:
            for group in step['effects']:
                roll = rng.random()
                if roll < 0.25:
                    program['children'].append(gen_program(rng, depth + 1, children_pool))
                    kind = rng.choice(['execute', 'launch', 'await_child', 'start_child'] if step.get('async') else ['execute', 'launch'])
                    group.append({'e': kind, 'child': len(program['children']) - 1})
                    if kind == 'start_child':
                        group[-1]['n'] = rng.randint(1, 2)
                elif roll < 0.32 and step.get('async') and depth == 0:
                    group.append({'e': 'adopt'})
                elif roll < 0.36 and depth == 0:
                    group.append({'e': 'execute_clone'})
    return program


def random_case(rng, tier):
    n_procs = rng.randint(2, 4 if tier == 'thorough' else 3)
    procs = [gen_program(rng, 0, None) for _ in range(n_procs)]
    starts = [rng.choice([0, 0, 0.5, 1]) for _ in range(n_procs)]
    case = {'procs': procs, 'starts': starts}
    if any(eff['e'] == 'adopt' for program in procs for step in program['steps'] for group in step['effects'] for eff in group):
        # processes that take their first step(s) at top level and are finished from inside another process's step
        case['adoptable'] = [[gen_program(rng, 2, None), rng.randint(1, 2)] for _ in range(rng.randint(1, 2))]
    return case


def shrink(case):
    if len(case['procs']) > 1:
        for i in range(len(case['procs'])):
            candidate = copy.deepcopy(case)
            del candidate['procs'][i]
            del candidate['starts'][i]
            yield candidate
    for i, program in enumerate(case['procs']):
        for smaller in common.shrink_program(program):
            candidate = copy.deepcopy(case)
            smaller['children'] = program.get('children', [])
            candidate['procs'][i] = smaller
            yield candidate
        for j in range(len(program.get('children') or [])):
            for smaller in common.shrink_program(program['children'][j]):
                candidate = copy.deepcopy(case)
                smaller['children'] = program['children'][j].get('children', [])
                candidate['procs'][i]['children'][j] = smaller
                yield candidate
    for i, start in enumerate(case['starts']):
        if start:
            candidate = copy.deepcopy(case)
            candidate['starts'][i] = 0
            yield candidate


class Sampler:
    def __init__(self, world, plumpy, result):
        self.world = world
        self.plumpy = plumpy
        self.result = result

    def before_handle(self, loop):
        pass

    def after_handle(self, loop):
        current = self.plumpy.Process.current()
        if loop.depth == 0:
            self.result.counters['sample:between_handles'] += 1
            if current is not None:
                self.result.violate('current_between_handles', 'not_none',
                                    f'no process code is on the stack but Process.current() is {programs.label(current)}')
        else:
            self.result.counters['sample:inside_nested'] += 1
            if loop.depth >= 2:
                self.result.counters['nested_depth2'] += 1
            expected = self.world.exec_stack[-1] if self.world.exec_stack else None
            if expected is not None and current is not expected:
                self.result.violate('current_inside_nested', 'outer',
                                    f'inside the nested run started by {programs.label(expected)} Process.current() is '
                                    f'{programs.label(current) if current is not None else None}')


def run(case):
    result = Result()
    plumpy = common.plumpy()
    seams.begin_case()
    world = programs.World()
    world.record_hooks = True
    loop = seams.new_loop(max_ticks=20000)
    loop.hooks = Sampler(world, plumpy, result)
    try:
        procs = []
        for index, program in enumerate(case['procs']):
            cls = programs.build_process_class(program, world, plumpy, hooks=True, record_calls=False)
            proc = cls(loop=loop)
            proc._sim_label = f'p{index}'
            procs.append(proc)
            loop.call_later(case['starts'][index], lambda proc=proc: loop.create_task(proc.step_until_terminated()))
            # callbacks scheduled on the process by plain code (no process on the stack), a function and a coroutine function
            def plain(proc=proc):
                world.rec('callback', programs.label(proc), 'env', programs.current_is(proc, plumpy), proc.state.value)

            async def coro(proc=proc):
                import asyncio
                world.rec('callback', programs.label(proc), 'env-coro', programs.current_is(proc, plumpy), proc.state.value)
                await asyncio.sleep(0)
                world.rec('callback', programs.label(proc), 'env-coro+', programs.current_is(proc, plumpy), proc.state.value)

            if index % 2 == 0:
                proc.call_soon(plain)
            proc.call_soon(coro)
        adoptables = []
        for index, (program, n_steps) in enumerate(case.get('adoptable') or []):
            cls = programs.build_process_class(program, world, plumpy, hooks=True, record_calls=False)
            target = cls(loop=loop)
            target._sim_label = f'a{index}'
            adoptables.append(target)

            async def first_steps(target=target, n_steps=n_steps):
                for _ in range(n_steps):
                    if not target.has_terminated():
                        await target.step()
                world.adoptable.append(target)

            loop.create_task(first_steps())
        interrupted = set()
        finishing = set()
        for _ in range(200):
            loop.run_until_quiescent()
            for child in list(world.handover):
                # started inside a parent's step, finished here at top level
                world.handover.remove(child)
                result.counters['probe:started_in_step_finished_at_top_level'] += 1
                loop.create_task(child.step_until_terminated())
            if world.handover == [] and loop.runnable():
                continue
            live = [p for p in procs + world.children + adoptables if not p.has_terminated() and p not in world.adoptable]
            if all(p.has_terminated() for p in procs):
                for target in list(world.adoptable):
                    # nobody adopted it: finished at top level
                    if id(target) not in finishing:
                        finishing.add(id(target))
                        world.adoptable.remove(target)
                        loop.create_task(target.step_until_terminated())
                if loop.runnable():
                    continue
            if not live:
                break
            progressed = False
            for proc in live:  # the environment plays what paused itself and resumes what waits
                if proc.paused:
                    proc.play()
                    progressed = True
                elif proc.state.value == 'waiting':
                    if id(proc) not in interrupted and len(interrupted) % 2 == 0:
                        # every other waiting step is first interrupted by a pause (its step is left through an
                        # interruption), then played and resumed
                        interrupted.add(id(proc))
                        proc.pause()
                        result.counters['probe:waiting_step_interrupted'] += 1
                    else:
                        interrupted.add(id(proc))
                        proc.resume(['rv', 0, 0])
                    progressed = True
            if not progressed:
                break
        events = list(world.events)
        result.events = events
        result.sim_time = loop.time()
        result.ticks = loop.tick
        for proc in procs + world.children + adoptables:
            if not proc.has_terminated():
                raise RuntimeError(f'process {programs.label(proc)} did not terminate: {proc.state}')

        nested = 0
        # interleaving measure: between the entry of a step of P and its last await-return, another process stepped
        last_label = None
        switches = 0
        for event in events:
            tag = event[0]
            if tag in ('step', 'resumed'):
                if last_label is not None and event[1] != last_label:
                    switches += 1
                last_label = event[1]
            if tag == 'step':
                result.counters['probe:step'] += 1
                if not event[7]:
                    result.violate('current_in_step', 'entry', f'at the entry of {event[2]} of {event[1]} Process.current() '
                                                               f'is not that process')
            elif tag == 'resumed':
                result.counters['probe:after_await'] += 1
                if not event[6]:
                    result.violate('current_after_await', 'await', f'after await #{event[3]} in {event[2]} of {event[1]} '
                                                                   f'Process.current() is not that process')
            elif tag == 'callback':
                result.counters['probe:callback'] += 1
                if str(event[2]).startswith('from-child'):
                    result.counters['probe:callback_on_parent'] += 1
                if not event[3]:
                    result.violate('current_in_callback', 'call_soon', f'in callback {event[2]} of {event[1]} '
                                                                       f'Process.current() is not that process')
            elif tag == 'hook':
                result.counters['probe:hook'] += 1
                if not event[3]:
                    if event[2] in HOOK_OUTPUT:
                        result.violate('current_in_output_hook', event[2], f'in {event[2]} of {event[1]} Process.current() '
                                                                           f'is not that process')
                    else:
                        result.violate('current_in_hook', event[2], f'in hook {event[2]} of {event[1]} Process.current() is '
                                                                    f'not that process')
            elif tag == 'after_nested':
                nested += 1
                result.counters['probe:after_nested'] += 1
                if not event[3]:
                    result.violate('current_after_nested', 'parent', f'after the nested execute of {event[2]} returned, '
                                                                     f'{event[1]} does not see itself as current')
            elif tag == 'launched':
                result.counters['probe:launched'] += 1
                if not event[3]:
                    result.violate('current_after_nested', 'launch', f'after launching {event[2]}, {event[1]} does not see '
                                                                     f'itself as current')
        if switches >= 2:
            result.counters['interleaved_runs'] += 1
        result.nontrivial = switches >= 2 or nested > 0 or bool(world.children)
        result.counters['timers_fired'] += loop.timers_fired
    finally:
        loop.hooks = None
        seams.reset_world()
        seams.end_case()
    return result

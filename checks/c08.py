# -*- coding: utf-8 -*-
"""C08 - resuming from any checkpoint reproduces the uninterrupted execution.

Reference: the uninterrupted run of the program (same scripted resume values).  Crash run: at each chosen step boundary
(right after construction, or inside the ENTERED_STATE callback of RUNNING/WAITING) the process is bundled through a
seeded medium, the instance is ABANDONED (its task dies with SimCrash and never runs again) and the bundle is loaded and
continued in a fresh SimLoop - possibly several times in a row at the same boundary.
Oracle clauses:
  step_repeated / step_skipped / step_order   the steps (and predicates) executed over all incarnations are exactly those
                                              of the reference, once each, in order
  persisted_trace     the trace kept in persisted process state by the last incarnation equals the reference trace
  outcome_differs     outputs, context, final state, result equal the reference
"""
import copy

from checks import common
from simkit import canon, persist, programs, seams, wcprograms
from simkit.runner import Result

PROPERTY = 'C08'
LEVEL = 'exploration'
RULE = (
    'cases = generated process programs (step chains with arguments, keyword arguments, waits with resume values) and '
    'workchain outlines (if_/elif_/else_, while_, return_, nesting <= 3, scripted predicate values kept in the persisted '
    'context) x a subset of <= M step boundaries as crash points (the same boundary possibly twice in a row) x medium per '
    'restore (deepcopy | pickle | YAML) x loader.  Non-trivial = at least one crash was taken at a boundary other than '
    'construction; distinct = distinct event-log digest.'
)
BUDGET = {'quick': (60000, 55), 'thorough': (2_000_000, 600)}
COMPONENTS = {
    'real': common.COMPONENTS['real'] + ['plumpy.persistence', 'plumpy.workchains steppers (_BlockStepper/_IfStepper/'
                                          '_WhileStepper/_FunctionStepper/_ReturnStepper)', 'plumpy.mixins.ContextMixin',
                                          'plumpy.loaders', 'copy.deepcopy', 'pickle', 'PyYAML'],
    'stub': common.COMPONENTS['stub'] + ['process crash -> SimCrash raised from a public ENTERED_STATE callback; restart -> '
                                          'Bundle.unbundle in a fresh SimLoop'],
}
ASSUMPTIONS = ['steps depend only on persisted state (arguments, context, persisted members)',
               'the same external resume values are replayed after each restore']
EXPECTED_COUNTERS = ['crash:lagged_behind_checkpoint', 'crash:same_checkpoint_loaded_again', 'medium:persister:memory', 'medium:persister:pickle', 'probe:latest_checkpoint_written_after_tagged_one', 'crash:paused', 'kind:process', 'kind:workchain', 'crash:running', 'crash:waiting', 'crash:created', 'crash:double',
                     'crash:in_loop_body', 'crash:in_branch', 'restores>=3']
PROGRAM_CFG = {
    'max_steps': 5,
    'p_wait': 0.3,
    'rets': ['value', 'stop', 'unsuccessful', 'kill', 'raise'],
    'effects': ['out', 'status'],
    'kwargs': True,
    'raw_kill': True,
    'p_async': 0.3,
    'max_awaits': 1,
}


def systematic(tier):
    return []


def reference(program):
    seams.begin_case()
    run = persist.RestartRun(program, {}, ['deepcopy'])
    try:
        proc = run.run()
        return _summary(run, proc), run.boundary
    finally:
        run.close()
        seams.end_case()


def _summary(run, proc):
    events = run.world.events
    executed = [[e[0], e[2]] + ([e[3], e[4]] if e[0] == 'step' else []) for e in events if e[0] in ('step', 'wstep', 'pred')]
    if hasattr(proc, 'ctx'):
        trace = list(getattr(proc.ctx, 'simtrace', []))
        ctx = canon.canon({k: v for k, v in vars(proc.ctx).items()})
    else:
        trace = canon.canon(getattr(proc, '_trace', None))
        ctx = None
    return {'executed': executed, 'persisted_trace': trace, 'ctx': ctx, 'outcome': common.outcome(proc)}


def random_case(rng, tier):
    if rng.random() < 0.45:
        program = programs.gen_process_program(rng, PROGRAM_CFG)
        if rng.random() < 0.3:
            program['reads_inputs'] = True  # every step looks at self.inputs (an empty mapping if there are none)
        if rng.random() < 0.2:
            program['codec'] = True  # the class stores inputs/outputs in a representation of its own
    else:
        program = wcprograms.gen_outline(rng)
    _, boundaries = reference(program)
    max_crashes = 3 if tier == 'quick' else 4
    crashes = {}
    for _ in range(rng.randint(1, max_crashes)):
        boundary = rng.randint(0, max(boundaries, 1))
        crashes[str(boundary)] = crashes.get(str(boundary), 0) + 1
    media = [rng.choice(persist.MEDIA) for _ in range(4)]
    lag, tags, lose_at = {}, None, []
    if rng.random() < 0.3:
        # the checkpoint goes through one of the bundled persisters, and at some crash points the instance runs on for a few
        # boundaries after its checkpoint before it is lost: nothing it does then may show in what is restored
        media = [rng.choice(persist.PERSISTER_MEDIA + persist.MEDIA) for _ in range(4)]
        for key in crashes:
            if rng.random() < 0.6:
                lag[key] = rng.randint(1, 3)
        tags = [rng.choice([None, None, 0, '', 1, 'snap']) for _ in range(3)]
        if rng.random() < 0.5:
            # instances restored from a stored checkpoint are lost before they write one of their own: the same checkpoint
            # is loaded again
            lose_at = sorted({rng.randint(1, max(boundaries, 1) + 1) for _ in range(rng.randint(1, 2))})
    pauses, crash_paused = [], []
    if rng.random() < 0.3:
        # the process is paused (request made from inside a transition) at some boundaries; at some of those the PAUSED
        # process is checkpointed and abandoned, and the restored one has to be played
        for _ in range(rng.randint(1, 2)):
            boundary = rng.randint(1, max(boundaries, 1))
            pauses.append(boundary)
            if rng.random() < 0.7:
                crash_paused.append(boundary)
    pause_in_step, crash_on_paused, crash_on_played = [], [], []
    if rng.random() < 0.3:
        # a pause requested from inside a step function is carried out together with the transition that follows the
        # step; the checkpoint is written when the listeners are told that the process is paused
        pause_in_step = sorted({rng.randint(1, max(boundaries, 1)) for _ in range(rng.randint(1, 2))})
        crash_on_paused = sorted({rng.randint(1, 3) for _ in range(rng.randint(0, 2))})
        crash_on_played = sorted({rng.randint(1, 3) for _ in range(rng.randint(0, 1))})
    return {'program': program, 'crashes': crashes, 'media': media, 'loader': rng.choice(['default', 'default', 'custom']),
            'pauses': pauses, 'crash_paused': crash_paused, 'pause_in_step': pause_in_step, 'crash_on_paused': crash_on_paused,
            'crash_on_played': crash_on_played, 'lag': lag, 'tags': tags, 'lose_at': lose_at, 'detached': rng.random() < 0.2}


def shrink(case):
    for key in list(case['crashes']):
        candidate = copy.deepcopy(case)
        del candidate['crashes'][key]
        yield candidate
    for key in ('pauses', 'crash_paused', 'pause_in_step', 'crash_on_paused', 'crash_on_played', 'lose_at'):
        for i in range(len(case.get(key) or [])):
            candidate = copy.deepcopy(case)
            del candidate[key][i]
            yield candidate
    for key in list(case.get('lag') or {}):
        candidate = copy.deepcopy(case)
        del candidate['lag'][key]
        yield candidate
    for key, count in case['crashes'].items():
        if count > 1:
            candidate = copy.deepcopy(case)
            candidate['crashes'][key] = count - 1
            yield candidate
    if case['program'].get('kind') == 'workchain':
        outline = case['program']['outline']
        if len(outline) > 1:
            for i in range(len(outline)):
                candidate = copy.deepcopy(case)
                del candidate['program']['outline'][i]
                yield candidate
        for name, step in case['program']['steps'].items():
            for ei in range(len(step.get('effects') or [])):
                candidate = copy.deepcopy(case)
                del candidate['program']['steps'][name]['effects'][ei]
                yield candidate
    else:
        for program in common.shrink_program(case['program']):
            candidate = copy.deepcopy(case)
            candidate['program'] = program
            yield candidate
    if case['loader'] != 'default':
        candidate = copy.deepcopy(case)
        candidate['loader'] = 'default'
        yield candidate
    if case['media'] != ['deepcopy']:
        candidate = copy.deepcopy(case)
        candidate['media'] = ['deepcopy']
        yield candidate


def run(case):
    result = Result()
    want, _ = reference(case['program'])
    seams.begin_case()
    runner = persist.RestartRun(case['program'], case.get('crashes'), case.get('media'), case.get('loader', 'default'),
                                pauses=case.get('pauses'), crash_paused=case.get('crash_paused'),
                                pause_in_step=case.get('pause_in_step'), crash_on_paused=case.get('crash_on_paused'),
                                crash_on_played=case.get('crash_on_played'), lag=case.get('lag'), tags=case.get('tags'),
                                lose_at=case.get('lose_at'), detached=case.get('detached'))
    try:
        proc = runner.run()
        if runner.runaway is not None:
            result.events = list(runner.world.events)
            result.nontrivial = True
            result.violate('runaway', 'tick_limit', f'the process does not come to rest: {runner.runaway}')
            return result
        if runner.resume_error is not None:
            result.events = list(runner.world.events)
            result.nontrivial = True
            result.violate('resume_failed', type(runner.resume_error).__name__,
                           f'resume() of the waiting process raised {runner.resume_error!r}')
            return result
        if runner.load_error is not None:
            result.events = list(runner.world.events)
            result.nontrivial = True
            result.violate('restore_failed', type(runner.load_error).__name__,
                           f'a checkpoint taken at a step boundary could not be loaded: {runner.load_error!r} (crashes {case["crashes"]})')
            return result
        got = _summary(runner, proc)
        result.events = list(runner.world.events)
        result.sim_time = runner.sim_time
        result.ticks = runner.ticks
        kind = case['program'].get('kind', 'process')
        result.counters[f'kind:{kind}'] += 1
        result.counters['unsavable_points'] += runner.unsavable
        for event in runner.world.events:
            if event[0] == 'latest_saved':
                result.counters['probe:latest_checkpoint_written_after_tagged_one'] += 1
            if event[0] == 'crash' and event[2] == 'lost-again':
                result.counters['crash:same_checkpoint_loaded_again'] += 1
            if event[0] == 'crash' and event[2] == 'lagged':
                result.counters['crash:lagged_behind_checkpoint'] += 1
            if event[0] in ('crash', 'checkpoint') and str(event[3]).startswith('persister'):
                result.counters[f'medium:{event[3]}'] += 1
        if case.get('detached') and runner.restores:
            result.counters['probe:restored_into_a_loop_that_is_not_the_current_one'] += 1
        for state in runner.crash_states:
            result.counters[f'crash:{state if not state.startswith("paused") else "paused"}'] += 1
        if any(v > 1 for v in case['crashes'].values()) and runner.restores >= 2:
            result.counters['crash:double'] += 1
        if runner.restores >= 3:
            result.counters['restores>=3'] += 1
        if kind == 'workchain' and runner.restores:
            flat = repr(case['program']['outline'])
            if "'while'" in flat:
                result.counters['crash:in_loop_body'] += 1
            if "'if'" in flat:
                result.counters['crash:in_branch'] += 1
        result.nontrivial = any(s != 'created' for s in runner.crash_states)
        outcome_keys_ignored = ()

        diff = common.first_difference(got['executed'], want['executed'])
        if diff is not None:
            index, what = diff
            mine = got['executed'][index] if index < len(got['executed']) else None
            theirs = want['executed'][index] if index < len(want['executed']) else None
            if what == 'extra' or (mine is not None and mine in want['executed'][:index]):
                rule = 'step_repeated'
            elif what == 'missing':
                rule = 'step_skipped'
            elif what == 'values':
                rule = 'step_arguments'
            else:
                rule = 'step_order'
            result.violate(rule, kind, f'after {runner.restores} restore(s) (crashes at boundaries {case["crashes"]}): executed '
                                       f'#{index} is {mine!r}, the uninterrupted run has {theirs!r}')
        elif got['persisted_trace'] != want['persisted_trace']:
            result.violate('persisted_trace', kind, f'persisted trace {got["persisted_trace"]!r} != reference '
                                                    f'{want["persisted_trace"]!r}')
        if got['outcome'] != want['outcome']:
            key = next(k for k in sorted(set(got['outcome']) | set(want['outcome']))
                       if got['outcome'].get(k) != want['outcome'].get(k))
            result.violate('outcome_differs', f'{kind}:{key}', f'{key}: {got["outcome"].get(key)!r} != uninterrupted '
                                                               f'{want["outcome"].get(key)!r} (restores: {runner.restores})')
        elif got['ctx'] != want['ctx']:
            result.violate('outcome_differs', f'{kind}:ctx', f'ctx {got["ctx"]!r} != uninterrupted {want["ctx"]!r}')
    finally:
        runner.close()
        seams.end_case()
    return result

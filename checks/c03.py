# -*- coding: utf-8 -*-
"""C03 - a failure in user code ends the process EXCEPTED, never half-transitioned.   (fault enumeration)

For every generated (program, scenario) a fault-free run counts how often each user-code site is reached;
then ONE RUN PER (site, occurrence) raises a unique exception instance exactly there.

Site classes and what the property says about each:
  construct   __init__, on_create, on_entering/on_entered of CREATED      -> the constructor raises that instance
  listener    every ProcessListener method                                 -> nothing about the process changes
  pauseplay   on_pausing / on_paused / on_playing                          -> reaches whoever requested the pause/play
                                                                              (raised by the call or carried by the
                                                                              returned action); process stays live and
                                                                              controllable and completes as without fault
  late        a call_soon callback that runs after termination             -> terminal state is final, nothing escapes
  fatal       step functions (entry / after every await), call_soon callbacks while live, output hooks,
              every state entry/exit/termination hook                      -> ends EXCEPTED with exactly that instance,
                                                                              closed, future raises it, stepping returns
                                                                              normally, nothing escapes into the loop
"""
import copy

from checks import common
from simkit import programs
from simkit.runner import Result

PROPERTY = 'C03'
LEVEL = 'fault_enumeration'
RULE = (
    'cases = generated process program x scenario (plain | pause/play at seeded positions | kill at a seeded position; '
    'outputs, waits/resume and call_soon callbacks come from the program); for each case the fault space '
    '{user-code site} x {occurrence index of that site in the fault-free run} is enumerated COMPLETELY, one injected '
    'fault per run.  evaluations = simulated executions (fault-free + one per fault); a run is non-trivial when its '
    'fault fired; distinct = distinct event-log digests of such runs.'
)
BUDGET = {'quick': (6000, 55), 'thorough': (400_000, 600)}
CHUNK = 20
COMPONENTS = common.COMPONENTS
ASSUMPTIONS = [
    'one fault per run', 'FIFO ready queue',
    'for on_except/on_excepted (reachable only when the program itself raised E0) either E0 or the injected instance is accepted',
    'garbage-collection-timed loop reports ("exception was never retrieved") are not used by the oracle',
]
EXPECTED_COUNTERS = ['kind:workchain', 'site:pred', 'class:construct', 'class:listener', 'class:pauseplay', 'class:late', 'class:fatal',
                     'scenario:plain', 'scenario:pauseplay', 'scenario:kill']
PROGRAM_CFG = {
    'max_steps': 3,
    'rets': ['value', 'value', 'stop', 'unsuccessful', 'kill', 'raise'],
    'effects': ['out', 'out', 'status', 'callsoon'],
    'max_awaits': 2,
}
PAUSEPLAY_HOOKS = ('hook:on_pausing', 'hook:on_paused', 'hook:on_playing')
TERMINAL = ('finished', 'excepted', 'killed')


_sys_cache = {}


def systematic(tier):
    if 'all' in _sys_cache:
        return _sys_cache['all']
    cases = []
    for name, program in programs.canonical_programs().items():
        ticks, _, _ = common.dry_run(program)
        cases.append({'program': program, 'schedule': [], 'scenario': 'plain', 'opts': {}})
        for pos in range(0, ticks + 1):
            cases.append({'program': program, 'scenario': 'pauseplay', 'opts': {},
                          'schedule': [{'act': 'pause', 'at': pos, 'msg': 'pp'}, {'act': 'play', 'at': ticks + 5}]})
            cases.append({'program': program, 'scenario': 'kill', 'opts': {},
                          'schedule': [{'act': 'kill', 'at': pos, 'msg': 'kk'}]})
            for later in range(pos + 1, ticks + 2):
                # a second pause request after the first: with a fault in the first one's hooks the process must still be pausable
                cases.append({'program': program, 'scenario': 'pauseplay', 'opts': {},
                              'schedule': [{'act': 'pause', 'at': pos, 'msg': 'first'}, {'act': 'pause', 'at': later, 'msg': 'second'},
                                           {'act': 'play', 'at': ticks + 6}]})
    _sys_cache['all'] = cases
    return cases


def random_case(rng, tier):
    opts = {}
    if rng.random() < 0.25:
        # WorkChain: outline steps and predicates are user code too
        program = common.gen_workchain_with_awaitables(rng)
        opts = {'hooks': True}
    else:
        program = programs.gen_process_program(rng, PROGRAM_CFG)
        if rng.random() < 0.2:
            program['init_callback'] = True  # a callback scheduled by the constructor (runs while the process is CREATED)
    ticks, notify, _ = common.dry_run(program, opts)
    scenario = rng.choice(['plain', 'pauseplay', 'pauseplay', 'kill'])
    if scenario == 'plain':
        schedule = []
    elif scenario == 'pauseplay':
        first = rng.randint(0, ticks + 1)
        schedule = [{'act': 'pause', 'at': first, 'msg': rng.choice([None, 'pp'])}]
        if rng.random() < 0.6:
            schedule.append({'act': 'play', 'at': rng.randint(first, ticks + 3)})
        else:
            schedule.append({'act': 'play', 'at': ticks + 6})
        if rng.random() < 0.3:
            schedule.append({'act': 'pause', 'at': rng.randint(first, ticks + 3), 'msg': 'again'})
    else:
        schedule = [{'act': 'kill', 'at': rng.randint(0, ticks + 1), 'msg': 'kk'}]
    case = {'program': program, 'schedule': schedule, 'scenario': scenario, 'opts': opts}
    if rng.random() < 0.2:
        case['assertion'] = True  # the failure is a failed assert
    if rng.random() < 0.25:
        case['bare'] = True  # the exception is raised without arguments (`raise ValueError`)
    if rng.random() < 0.2:
        case['hostile'] = True  # an exception raised inside a listener cannot be formatted (its __str__ raises)
    return case


def shrink(case):
    if case['program'].get('kind') == 'workchain':
        for i in range(len(case['schedule'])):
            candidate = copy.deepcopy(case)
            del candidate['schedule'][i]
            yield candidate
        return
    for candidate in common.shrink_control({k: v for k, v in case.items() if k != 'fault'} | {'opts': {}}):
        candidate = dict(candidate)
        candidate['fault'] = case.get('fault')
        candidate['scenario'] = case.get('scenario')
        yield candidate


def site_class(site, occurrence, callback_states):
    if site == 'init' or site.startswith('hook:on_create'):
        return 'construct'
    if site in ('hook:on_entering', 'hook:on_entered', 'hook:on_entering:post', 'hook:on_entered:post') and occurrence == 0:
        return 'construct'
    if site.startswith('listener:'):
        return 'listener'
    if site.startswith(PAUSEPLAY_HOOKS):
        return 'pauseplay'
    if site.startswith('callback:'):
        state = callback_states.get((site, occurrence))
        return 'late' if state in TERMINAL else 'fatal'
    return 'fatal'


def _execute(case, fault):
    """One simulated execution; returns (engine, drive status).  The caller closes the engine."""
    engine = common.new_engine(case, record_hooks=False, fault=fault)
    # (only for faults inside listeners, which the process swallows and logs: for an exception that becomes the outcome of
    # the process, being printable is part of being a usable outcome, and plumpy formats it in several places)
    engine.world.hostile = bool(case.get('hostile')) and fault is not None and str(fault[0]).startswith('listener:')
    engine.world.bare_faults = bool(case.get('bare'))
    engine.world.assertion_faults = bool(case.get('assertion'))
    started = engine.start()
    drive = None
    if started:
        engine.run_schedule()
        drive = engine.drive_out()
    return engine, started, drive


def run(case):
    result = Result()
    result.digests = set()
    result.runs = 0
    result.counters[f'scenario:{case.get("scenario", "plain")}'] += 1
    if case['program'].get('kind') == 'workchain':
        result.counters['kind:workchain'] += 1

    # fault-free run: which sites are reached, how often
    engine, started, drive = _execute(case, None)
    try:
        if not started:
            raise RuntimeError(f'fault-free construction failed: {engine.construct_error!r}')
        counts = dict(engine.world.fault_counts)
        baseline_events = [e for e in engine.world.events]
        baseline_outcome = common.outcome(engine.proc)
        baseline_drive = drive
        callback_states = {}
        seen = {}
        for event in baseline_events:
            if event[0] == 'callback':
                site = f'callback:{event[2]}'
                callback_states[(site, seen.get(site, 0))] = event[4]
                seen[site] = seen.get(site, 0) + 1
        result.runs += 1
        result.sim_time += engine.loop.time()
        result.ticks += engine.loop.tick
        result.events = list(baseline_events)
    finally:
        common.close_engine(engine)

    if case.get('fault'):
        faults = [tuple(case['fault'])]
    else:
        faults = [(site, occ) for site in sorted(counts) for occ in range(counts[site])]
    for site, occurrence in faults:
        kind = site_class(site, occurrence, callback_states)
        engine, started, drive = _execute(case, (site, occurrence))
        try:
            result.runs += 1
            result.sim_time += engine.loop.time()
            result.ticks += engine.loop.tick
            world = engine.world
            injected = world.fault_fired
            if injected is None:
                result.counters['fault_not_reached'] += 1
                continue
            result.counters[f'class:{kind}'] += 1
            result.counters[f'site:{site.split("@")[0] if site.startswith("step:") else site}'] += 1
            if site.startswith('pred:'):
                result.counters['site:pred'] += 1
            sub = Result()
            sub.events = list(world.events)
            result.digests.add(sub.digest())
            failing = dict(copy.deepcopy({k: v for k, v in case.items() if k != 'origin'}), fault=[site, occurrence])
            _oracle(kind, site, occurrence, engine, started, drive, injected, result, failing, baseline_events,
                    baseline_outcome, baseline_drive)
        finally:
            common.close_engine(engine)
    result.nontrivial = True
    return result


def _carries(context, injected):
    exc = context.get('exception')
    seen = 0
    while exc is not None and seen < 8:
        if exc is injected:
            return True
        exc = exc.__cause__ or exc.__context__
        seen += 1
    return False


def _oracle(kind, site, occurrence, engine, started, drive, injected, result, failing, baseline_events,
            baseline_outcome, baseline_drive):
    plumpy = common.plumpy()
    where = f'{site}#{occurrence}'
    sig_site = site

    def violate(rule, detail):
        result.violate(rule, sig_site, f'[fault at {where}, class {kind}] {detail}', case=failing)

    escaped = [c for c in engine.loop.exc_contexts if _carries(c, injected)]
    # ... and exceptions of loop tasks that nobody retrieves (asyncio reports those to the loop's handler when the task is
    # collected): the task that steps the process is judged separately below
    for task, exc in engine.loop.unretrieved_task_exceptions():
        if task is not engine.task and _carries({'exception': exc}, injected):
            escaped.append({'message': f'Task exception was never retrieved: {exc!r}', 'exception': exc})

    if kind == 'construct':
        if started:
            violate('construct_not_raised', 'the constructor returned although user code raised during construction')
        elif engine.construct_error is not injected:
            violate('construct_not_raised', f'the constructor raised {engine.construct_error!r}, not the injected instance')
        return

    if not started:
        violate('harness', f'construction failed: {engine.construct_error!r}')
        return
    proc = engine.proc
    task = engine.task

    if escaped:
        violate('escaped_into_loop', f'the exception reached the event loop exception handler: {escaped[0].get("message")}')

    if kind == 'listener':
        mine = [e for e in engine.world.events if e[0] != 'fault']
        if mine != baseline_events:
            diff = next((i for i, (a, b) in enumerate(zip(mine, baseline_events)) if a != b), min(len(mine), len(baseline_events)))
            violate('listener_changed_process', f'event log differs from the fault-free run at #{diff}: '
                                                f'{mine[diff] if diff < len(mine) else None!r} vs '
                                                f'{baseline_events[diff] if diff < len(baseline_events) else None!r}')
        return

    if kind == 'late':
        if proc.exception() is injected:
            violate('late_callback_changed_state', 'a callback failing after termination replaced the outcome')
        elif common.outcome(proc) != baseline_outcome:
            violate('late_callback_changed_state', f'outcome {common.outcome(proc)!r} differs from fault-free {baseline_outcome!r}')
        return

    if kind == 'pauseplay':
        import asyncio

        reached = False
        for record in engine.records:
            if record.raised is injected:
                reached = True
            value = record.result
            import asyncio
            if asyncio.isfuture(value) and value.done() and not value.cancelled() and value.exception() is injected:
                reached = True
        for _, _, value in engine.world.self_results:
            import asyncio
            if value is injected or (asyncio.isfuture(value) and value.done() and not value.cancelled()
                                     and value.exception() is injected):
                reached = True
        # "leaves the process live and controllable": pause requests made after the failed one behave normally
        fault_at = next((i for i, e in enumerate(engine.world.events) if e[0] == 'fault'), None)
        for record in engine.records:
            if fault_at is None or record.seq <= fault_at:
                continue  # requested before the hook failed (it may legitimately share the failed action)
            if record.action['act'] == 'pause' and record.pre_live and not record.pre_paused and record.where != 'driveout':
                value = record.result
                later = common.future_value(value) if record.raised is None else f'raised:{record.raised!r}'
                if later is not True and later != 'cancelled':
                    violate('pauseplay_not_controllable', f'a pause() requested after the failed one resolved to {later!r} '
                                                          f'instead of pausing the process')
        if not reached:
            violate('pauseplay_not_reported', 'the exception raised in the pause/play hook did not reach the requester '
                                              '(neither raised by the call nor carried by the returned action)')
        if proc.exception() is injected:
            violate('pauseplay_killed_process', 'the process ended EXCEPTED with the exception of a pause/play hook')
        elif drive != 'terminated' and baseline_drive == 'terminated':
            violate('pauseplay_not_controllable', f'after the failing hook the run could not be completed: {drive} '
                                                  f'(state {proc.state.value}, paused={proc.paused})')
        elif drive == 'terminated':
            mine = common.outcome(proc)
            for key in ('state', 'result', 'outputs'):
                if mine.get(key) != baseline_outcome.get(key):
                    violate('pauseplay_not_controllable', f'{key}: {mine.get(key)!r} != fault-free {baseline_outcome.get(key)!r}')
                    break
            else:
                # "never half-transitioned": the transition that the failing hook accompanied is neither lost nor made
                # twice - the user code executed is that of the fault-free run
                got = [e[:3] for e in common.user_trace(engine.world.events)]
                want = [e[:3] for e in common.user_trace(baseline_events)]
                if got != want and baseline_drive == 'terminated':
                    diff = common.first_difference(got, want)
                    violate('pauseplay_half_transitioned', f'after the failing pause/play hook the executed steps differ from the '
                                                           f'fault-free run at #{diff[0] if diff else "?"}: {got} vs {want}')
        if task.done() and not task.cancelled() and task.exception() is not None:
            violate('stepping_raised', f'step_until_terminated() ended with {task.exception()!r}')
        return

    # fatal sites
    state = proc.state.value
    accept = [injected]
    if site.startswith(('hook:on_except', 'hook:on_excepted')) and engine.world.program_errors:
        accept.append(engine.world.program_errors[-1])
    if state != 'excepted':
        violate('not_excepted', f'the process is {state} (drive-out: {drive}, paused={proc.paused})')
        return
    if not any(proc.exception() is exc for exc in accept):
        violate('wrong_exception', f'exception() is {proc.exception()!r}, not the injected instance')
    future = proc.future()
    if not future.done() or future.cancelled() or not any(future.exception() is exc for exc in accept):
        violate('future_disagrees', f'the process future is {future!r}')
    try:
        proc.add_cleanup(lambda: None)
        violate('not_closed', 'the excepted process is not closed')
    except plumpy.ClosedError:
        pass
    if not task.done():
        violate('stepping_blocked', f'step_until_terminated() has not returned (paused={proc.paused})')
    elif task.cancelled() or task.exception() is not None:
        violate('stepping_raised', f'step_until_terminated() ended with {task!r}')
    if engine.loop.runnable():
        violate('not_quiescent', 'the loop is still runnable')

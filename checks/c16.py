# -*- coding: utf-8 -*-
"""C16 - remote control equals direct control; each transition announced once, in order.

The process is constructed with a SimCommunicator (simkit/comm.py); requests go through plumpy's own
RemoteProcessController / RemoteProcessThreadController and MessageBuilder and replies come back through the
pending-future chain the RMQ transport produces.
Oracle clauses:
  twin_reply / twin_effect   (quiescent deliveries) the same program driven by the equivalent DIRECT calls at the same
                             points yields the same (unwrapped) replies and the same process-visible event log and outcome
  reply_vs_call              (deliveries at arbitrary virtual times, delayed / duplicated / reordered) the reply equals the
                             unwrapped return value of the control call the handler actually made
  thread_unsafe_scheduling   a subscriber callback (which runs in the communicator's thread in production) schedules work
                             on the process's loop through call_soon / create_task instead of a thread-safe entry point
  reply_is_future            RemoteProcessController hands back a future object as "the reply"
  reply_pending              a reply future never completes although the loop is quiescent
  remote_kill_lost           a kill handled while the process was live did not end it KILLED (EXCEPTED if the step failed)
  broadcast_sequence         an independent subscriber / the send log sees exactly one state_changed.<from>.<to> per
                             completed transition, sender == pid, in order, nothing else with that prefix
  broadcast_failure_disturbs making broadcast_send raise a tolerated error at transition k changes the process's event log
  still_subscribed / late_message_handled   after termination no subscription under the pid is left and a late message
                             reaches no process method
  subscribe_timeout          a timed-out subscriber registration prevents the process from being created or run
"""
import asyncio
import copy
import re

import kiwipy
from aio_pika.exceptions import ChannelInvalidStateError, ConnectionClosed

from checks import common
from simkit import comm, programs
from simkit.runner import Result

PROPERTY = 'C16'
LEVEL = 'exploration'
RULE = (
    'cases = generated process program x sequence of control messages (RPC through RemoteProcessController or '
    'RemoteProcessThreadController, or broadcast; intents pause/play/kill/status/unknown) x delivery plan.  Flavour '
    '"quiescent": message i is sent whenever the loop is quiescent, compared with a twin run making the direct calls; '
    'flavour "timed": messages sent at seeded virtual times with delay, duplication and reordering, replies compared with '
    'the recorded return value of the handler\'s own call; flavour "bfault": fault-free run, then one run per (transition '
    'k, tolerated error) with broadcast_send raising; flavour "subtimeout": subscriber registration times out.  '
    'Non-trivial = at least one message was handled while the process was live; distinct = distinct event-log digest.'
)
BUDGET = {'quick': (40000, 55), 'thorough': (1_500_000, 600)}
COMPONENTS = {
    'real': common.COMPONENTS['real'] + [
        'Process.message_receive / broadcast_receive / _schedule_rpc', 'plumpy.process_comms.MessageBuilder, '
        'RemoteProcessController, RemoteProcessThreadController', 'kiwipy.CommunicatorHelper subscriber tables, '
        'kiwipy.BroadcastFilter, kiwipy futures, asyncio.wrap_future / run_coroutine_threadsafe'],
    'stub': common.COMPONENTS['stub'] + [
        'RabbitMQ + kiwipy RMQ transport and its thread -> simkit.comm.SimCommunicator (pending-reply protocol '
        're-implemented from kiwipy sources; deliveries are loop events)'],
}
ASSUMPTIONS = ['the broker preserves the order of broadcasts of one publisher', 'FIFO ready queue',
               'only the first response to a duplicated request reaches the caller']
EXPECTED_COUNTERS = ['hook_fault:configured', 'restored_process:rest:pickle', 'restored_process:created:yaml', 'comm:loop_communicator', 'flavour:quiescent', 'flavour:timed', 'flavour:bfault', 'flavour:subtimeout', 'msg:rpc', 'msg:bcast',
                     'msg:thread_controller', 'net:duplicated', 'net:reordered', 'net:delayed', 'probe:handled_while_stepping',
                     'probe:late_message', 'probe:reply_cancelled', 'bfault:ConnectionClosed', 'bfault:ChannelInvalidStateError',
                     'bfault:TimeoutError']
PROGRAM_CFG = {
    'max_steps': 4,
    'rets': ['value', 'value', 'stop', 'unsuccessful', 'kill', 'raise'],
    'effects': ['out', 'status', 'callsoon'],
    'p_wait': 0.45,
}
INTENTS = ['pause', 'play', 'kill', 'status']
TOLERATED = {
    'ConnectionClosed': lambda: ConnectionClosed('injected'),
    'ChannelInvalidStateError': lambda: ChannelInvalidStateError('injected'),
    'TimeoutError': lambda: kiwipy.TimeoutError('injected'),
}
PID = 'proc-16'


_sys_cache = {}


def systematic(tier):
    """Every sequence of <= 2 (thorough 3) messages / resumes at successive quiescence points of the canonical programs."""
    if tier in _sys_cache:
        return _sys_cache[tier]
    import itertools
    alphabet = [('rpc', i) for i in INTENTS] + [('bcast', i) for i in ('pause', 'play', 'kill')] + [('resume', None)]
    cases = []
    canon = programs.canonical_programs()
    for name in ('wait1', 'wait2', 'async1', 'sync2'):
        for length in range(1, (2 if tier == 'quick' else 3) + 1):
            for combo in itertools.product(alphabet, repeat=length):
                if all(kind == 'resume' for kind, _ in combo):
                    continue
                schedule = []
                for index, (kind, intent) in enumerate(combo):
                    if kind == 'resume':
                        schedule.append({'act': 'resume', 'q': index})
                    else:
                        action = {'act': kind, 'intent': intent, 'q': index}
                        if intent in ('pause', 'kill'):
                            action['msg'] = f'{intent}-s{index}'
                        if kind == 'rpc':
                            action['via'] = 'thread' if index % 2 else 'async'
                        schedule.append(action)
                cases.append({'program': canon[name], 'schedule': schedule, 'opts': {'comm': True, 'pid': PID},
                              'flavour': 'quiescent', 'origin': f'systematic:{name}'})
    # timed: a pause and, at the same or the next instant, a play - while a step is in flight at every quarter of its run
    for name in ('async1', 'wait1', 'sync2'):
        _, _, info = common.dry_run(canon[name])
        horizon = info.get('time', 1.0) + 0.5
        steps = int(horizon * 4) + 1
        for quarter in range(steps):
            for gap in (0, 0.25):
                for kind in ('rpc', 'bcast'):
                    for wrap in (False, True):
                        schedule = [{'act': kind, 'intent': 'pause', 'msg': 'pause-t', 't': quarter / 4, 'via': 'async', 'delay': 0},
                                    {'act': kind, 'intent': 'play', 't': quarter / 4 + gap, 'via': 'async', 'delay': 0}]
                        opts = {'comm': True, 'pid': PID}
                        if wrap:
                            opts['wrap'] = True
                        cases.append({'program': canon[name], 'schedule': schedule, 'opts': opts, 'flavour': 'timed',
                                      'origin': f'systematic:{name}:pause-play'})
    _sys_cache[tier] = cases
    return cases


def gen_message(rng, index, timed):
    intent = rng.choice(INTENTS + (['bogus'] if rng.random() < 0.1 else []))
    action = {'act': 'rpc' if rng.random() < 0.7 else 'bcast', 'intent': intent}
    if intent in ('pause', 'kill'):
        action['msg'] = f'{intent}-m{index}'
    if intent in ('pause', 'kill', 'play') and rng.random() < 0.15:
        action['raw'] = True  # bare {'intent': ...} message
        action.pop('msg', None)
    if action['act'] == 'rpc':
        action['via'] = rng.choice(['async', 'async', 'thread'])
    if timed:
        action['delay'] = rng.choice([0, 0, 0.25, 0.5, 1])
        action['dup'] = rng.random() < 0.2
        action['reorder'] = rng.random() < 0.2
    return action


def random_case(rng, tier):
    program = programs.gen_process_program(rng, PROGRAM_CFG)
    flavour = rng.choice(['quiescent', 'quiescent', 'timed', 'timed', 'bfault', 'subtimeout'])
    opts = {'comm': True, 'pid': rng.choice([PID, PID, 16, {'__uuid__': 16}, None])}
    if rng.random() < 0.4:
        opts['wrap'] = True  # the process is given plumpy's LoopCommunicator around the transport
    if rng.random() < 0.4:
        opts['eager'] = True  # the loop's thread runs what it is handed before the communicator's thread goes on (SimLoop)
    schedule = []
    n_max = 4 if tier == 'quick' else 6
    if flavour == 'quiescent':
        for index in range(rng.randint(1, n_max)):
            if rng.random() < 0.3:
                schedule.append({'act': 'resume', 'q': index})
            else:
                action = gen_message(rng, index, False)
                action['q'] = index
                schedule.append(action)
    elif flavour == 'timed':
        ticks, notify, info = common.dry_run(program)
        horizon = info.get('time', 1.0) + 1.0
        for index in range(rng.randint(1, n_max)):
            action = gen_message(rng, index, True)
            action['t'] = round(rng.uniform(0, horizon) * 4) / 4
            schedule.append(action)
    elif flavour == 'subtimeout':
        if rng.random() < 0.5:
            opts['subscribe_timeouts'] = rng.choice([['rpc'], ['broadcast'], ['rpc', 'broadcast']])
        else:
            # the clean-up of one subscription times out when the process closes: the other one is removed all the same
            opts['unsubscribe_timeouts'] = rng.choice([['rpc'], ['broadcast']])
    case_fault = None
    if flavour in ('quiescent', 'timed') and rng.random() < 0.12:
        # a pause / play hook of the process raises: the error goes to whoever asked - the direct caller as an exception,
        # the remote one as an error reply - and the process is left as the direct call leaves it
        case_fault = ['hook:' + rng.choice(['on_pausing', 'on_paused', 'on_playing']) + rng.choice(['', ':post']), rng.choice([0, 0, 1])]
    if flavour != 'subtimeout' and rng.random() < 0.25:
        # the controlled process is one recreated from a checkpoint with the communicator in its load context (what a
        # launcher's continue task does), saved right after construction or at its first rest
        from simkit import persist
        opts['via_bundle'] = {'medium': rng.choice(persist.MEDIA), 'after': rng.choice(['created', 'rest', 'rest', 'terminated'])}
    if flavour in ('quiescent', 'timed') and rng.random() < 0.12:
        # one step starts a child with self.launch()
        program['children'] = [{'kind': 'process', 'inputs': None,
                                'steps': [{'async': False, 'awaits': [], 'effects': [[{'e': 'out', 'k': 'c', 'v': 1}]],
                                           'ret': {'t': 'value', 'v': 'child'}}]}]
        rng.choice(program['steps'])['effects'][0].append({'e': 'launch', 'child': 0})
    case = {'program': program, 'schedule': schedule, 'opts': opts, 'flavour': flavour}
    if case_fault:
        case['fault'] = case_fault
    return case


def shrink(case):
    for candidate in common.shrink_control(case):
        candidate['opts'] = dict(case['opts'])
        if case['flavour'] == 'quiescent':
            for index, action in enumerate(candidate['schedule']):
                action['q'] = index
        yield candidate
    for i, action in enumerate(case['schedule']):
        for key in ('dup', 'reorder', 'delay'):
            if action.get(key):
                candidate = copy.deepcopy(case)
                candidate['schedule'][i][key] = 0 if key == 'delay' else False
                yield candidate
        if action.get('via') == 'thread':
            candidate = copy.deepcopy(case)
            candidate['schedule'][i]['via'] = 'async'
            yield candidate


# ---------------------------------------------------------------------------------------------------


def _normal_status(value):
    if isinstance(value, dict) and 'process_string' in value:
        value = dict(value)
        value['process_string'] = re.sub(r'GenProcess\d+', 'GenProcess', value['process_string'])
    return value


def _normal(outcome):
    if outcome and outcome[0] == 'value':
        return ('value', programs.freeze(_normal_status(outcome[1])))
    return outcome


def process_view(events):
    """What the process itself did and told its listeners (independent of how requests reached it)."""
    keep = []
    for event in events:
        if event[0] in ('enter', 'step', 'resumed', 'notify', 'callback', 'cleanup', 'raise', 'qstate'):
            keep.append(event)
    return keep


class Recorder:
    """Independent broadcast subscriber."""

    def __init__(self):
        self.seen = []

    def __call__(self, _comm, body=None, sender=None, subject=None, correlation_id=None):
        self.seen.append((subject, sender))


def run(case):
    result = Result()
    flavour = case.get('flavour', 'quiescent')
    result.counters[f'flavour:{flavour}'] += 1
    if case.get('fault'):
        result.counters['hook_fault:configured'] += 1
    if case['opts'].get('via_bundle'):
        result.counters[f'restored_process:{case["opts"]["via_bundle"]["after"]}:{case["opts"]["via_bundle"]["medium"]}'] += 1
    first = _run_once(case, result, direct=False)
    if first is None:
        return result
    if flavour == 'quiescent' and not first['skip_twin']:
        twin = _run_once(case, None, direct=True)
        if twin is not None:
            _compare_twin(first, twin, result)
    if flavour == 'bfault':
        n_transitions = sum(1 for s in first['sent'] if str(s[0]).startswith('state_changed'))
        for k in range(n_transitions):
            for name, make in TOLERATED.items():
                faulty = _run_once(case, None, direct=False, broadcast_fault=(k, make()))
                result.runs += 1
                result.counters[f'bfault:{name}'] += 1
                if faulty is None:
                    result.violate('broadcast_failure_disturbs', f'{name}:construct', f'{name} at broadcast #{k}: the process '
                                                                                      f'could not be constructed')
                    continue
                if faulty['view'] != first['view'] or faulty['outcome'] != first['outcome']:
                    result.violate('broadcast_failure_disturbs', name,
                                   f'{name} raised by broadcast_send at transition #{k} changed the process: outcome '
                                   f'{faulty["outcome"]} vs {first["outcome"]}')
                expected = [s for i, s in enumerate(first['sent']) ]
                if [s[0] for s in faulty['sent']] != [s[0] for s in expected]:
                    result.violate('broadcast_failure_disturbs', f'{name}:sequence',
                                   f'after {name} at #{k} the announced transitions are {[s[0] for s in faulty["sent"]]}')
    return result


def _run_once(case, result, direct=False, broadcast_fault=None):
    plumpy = common.plumpy()
    run_case = copy.deepcopy(case)
    flavour = case.get('flavour', 'quiescent')
    if direct:
        for action in run_case['schedule']:
            if action['act'] in ('rpc', 'bcast'):
                action['act'] = 'direct'
    engine = common.new_engine(run_case, record_hooks=False)
    if case.get('fault'):
        engine.world.fault = tuple(case['fault'])
    call_results = []
    try:
        recorder = Recorder()
        original_start = engine.start

        # the communicator exists only after start(); the recorder must subscribe before the process is constructed so
        # that it also sees the announcement of the initial state: hook into the communicator creation
        from simkit import comm as comm_module

        original_cls = comm_module.SimCommunicator

        class Prepared(original_cls):
            def __init__(self, loop):
                super().__init__(loop)
                self.add_broadcast_subscriber(recorder, identifier='sim-recorder')
                if broadcast_fault is not None:
                    self.broadcast_fault = broadcast_fault

        comm_module.SimCommunicator = Prepared
        try:
            started = engine.start()
        finally:
            comm_module.SimCommunicator = original_cls
        if not started:
            if result is not None and flavour == 'subtimeout':
                result.violate('subscribe_timeout', 'construct', f'a timed-out subscriber registration made construction fail: '
                                                                 f'{engine.construct_error!r}')
            elif result is not None:
                raise RuntimeError(f'construction failed: {engine.construct_error!r}')
            return None
        proc = engine.proc
        communicator = engine.communicator

        # record what the handler's own control calls return (public methods wrapped on the instance)
        for name in ('pause', 'play', 'kill'):
            bound = getattr(proc, name)

            def wrapper(*args, _bound=bound, _name=name, **kwargs):
                live = not proc.has_terminated()
                stepping = getattr(proc, '_stepping', False)
                try:
                    value = _bound(*args, **kwargs)
                except Exception as exc:  # noqa: BLE001
                    call_results.append((_name, kwargs.get('msg_text', args[0] if args else None), ('raised', exc), live, stepping))
                    raise
                call_results.append((_name, kwargs.get('msg_text', args[0] if args else None), value, live, stepping))
                return value

            setattr(proc, name, wrapper)

        # direct equivalents of the messages (twin run)
        original_fire = engine.fire

        def fire(index, where):
            action = engine.schedule[index]
            if action['act'] != 'direct':
                return original_fire(index, where)
            intent, text = action['intent'], action.get('msg')
            record = None
            engine.world.rec('act', index, 'direct:' + intent, where, proc.state.value, proc.paused)
            holder = type('R', (), {})()
            holder.index, holder.action, holder.where, holder.raised, holder.result = index, action, where, None, None
            holder.pre_live = not proc.has_terminated()
            holder.context = engine.control_context()
            holder.tick = engine.loop.tick
            try:
                if proc.has_terminated() and action.get('orig_act', 'rpc') == 'rpc':
                    holder.result = ('unroutable',)
                elif proc.has_terminated():
                    holder.result = None
                elif intent == 'pause':
                    holder.result = proc.pause(msg_text=text)
                elif intent == 'play':
                    holder.result = proc.play()
                elif intent == 'kill':
                    holder.result = proc.kill(msg_text=text)
                elif intent == 'status':
                    info = {}
                    proc.get_status_info(info)
                    holder.result = info
                else:
                    holder.result = ('unknown-intent',)
            except Exception as exc:  # noqa: BLE001
                holder.raised = exc
            engine.records.append(holder)
            engine.sample()
            return holder

        plain_fire = fire

        def fire_with_state(index, where):
            if where == 'quiescent':
                # what the previous requests have left behind, as seen when the loop is quiescent again
                engine.world.rec('qstate', proc.state.value, proc.paused, proc.status)
            return plain_fire(index, where)

        engine.fire = fire_with_state
        if direct:
            for action, original in zip(engine.schedule, case['schedule']):
                if action['act'] == 'direct':
                    action['orig_act'] = original['act']

        engine.run_schedule()
        engine.world.rec('qstate', proc.state.value, proc.paused, proc.status)
        drive = engine.drive_out()
        engine.run_to_quiescence()

        # late message after termination
        late_reply = None
        calls_before_late = len(call_results)
        if proc.has_terminated() and not direct:
            late_reply = communicator.rpc_send(str(proc.pid), plumpy.MessageBuilder.kill(text='late'))
            communicator.broadcast_send(plumpy.MessageBuilder.kill(text='late-all'), subject='kill')
            engine.run_to_quiescence()

        replies = []
        for record in engine.records:
            action = record.action
            if action['act'] in ('rpc', 'direct') and record.where != 'driveout':
                if action['act'] == 'direct':
                    value = record.result
                    if record.raised is not None:
                        outcome = ('exception', 'RemoteException', '')
                    elif value == ('unroutable',):
                        outcome = ('exception', 'UnroutableError', '')
                    elif value == ('unknown-intent',):
                        outcome = ('exception', 'RemoteException', '')
                    else:
                        outcome = comm.unwrap(value)
                        if outcome[0] == 'exception':
                            # the action future of a direct call that failed (e.g. a pause hook raised): over the wire any
                            # error of the handler arrives as a RemoteException
                            outcome = ('exception', 'RemoteException', '')
                    broadcast = action.get('orig_act') == 'bcast'
                else:
                    outcome = comm.unwrap(record.result)
                    if outcome[0] == 'exception':
                        outcome = ('exception', outcome[1], '')
                    broadcast = False
                replies.append((record.index, action['intent'], broadcast, _normal(outcome)))
        data = {
            'view': process_view(engine.world.events),
            'outcome': common.outcome(proc),
            'replies': replies,
            'drive': drive,
            'sent': list(communicator.sent_broadcasts),
            'seen': list(recorder.seen),
            'calls': call_results,
            'skip_twin': False,
            'events': list(engine.world.events),
        }
        if result is not None:
            _oracle_single(case, engine, proc, communicator, data, result, late_reply, calls_before_late, recorder)
            common.finish_result(engine, result)
            for key, value in communicator.net.counters.items():
                result.counters[f'net:{key}'] += value
        return data
    finally:
        common.close_engine(engine)


def _oracle_single(case, engine, proc, communicator, data, result, late_reply, calls_before_late, recorder):
    flavour = case.get('flavour', 'quiescent')
    pid = proc.pid
    calls = data['calls']
    handled_live = [c for c in calls[:calls_before_late] if c[3]]
    result.nontrivial = bool(handled_live) or flavour in ('bfault', 'subtimeout')
    if case['opts'].get('wrap'):
        result.counters['comm:loop_communicator'] += 1
    for action in case['schedule']:
        if action['act'] in ('rpc', 'bcast'):
            result.counters[f'msg:{action["act"]}'] += 1
            if action.get('via') == 'thread':
                result.counters['msg:thread_controller'] += 1
    if any(c[4] for c in handled_live):
        result.counters['probe:handled_while_stepping'] += 1

    # -- subscriber callbacks run in the communicator's thread in production: only thread-safe scheduling from there --------
    if engine.loop.thread_violations:
        result.violate('thread_unsafe_scheduling', engine.loop.thread_violations[0].split('(')[0],
                       f'while handling a message in the communicator\'s thread the process scheduled work on its loop through '
                       f'a non-thread-safe call: {engine.loop.thread_violations[:3]}')

    # -- replies ----------------------------------------------------------------------------------------
    by_text = {}
    for name, text, value, live, stepping in calls:
        by_text.setdefault((name, text), []).append(value)
    for record in engine.records:
        action = record.action
        if action['act'] != 'rpc' or record.where == 'driveout':
            continue
        outcome = comm.unwrap(record.result)
        intent = action['intent']
        if asyncio.isfuture(record.result) and record.result.done() and not record.result.cancelled() \
                and record.result.exception() is None and comm._isfuture(record.result.result()):
            result.violate('reply_is_future', f'{intent}:{"wrapped" if case["opts"].get("wrap") else "raw"}',
                           f'RemoteProcessController returned a future object as the reply to {intent}: '
                           f'{record.result.result()!r}')
        if outcome[0] == 'pending':
            result.violate('reply_pending', intent, f'the reply to the {intent} request ({action.get("msg")!r}) is still '
                                                    f'pending at level {outcome[1]} although the loop is quiescent')
            continue
        if outcome == ('cancelled',):
            result.counters['probe:reply_cancelled'] += 1
        if intent in ('pause', 'kill') and flavour in ('timed', 'quiescent') and action.get('msg') is not None:
            # (the handler's call is identified by its unique text: bare messages without text are judged by the twin run)
            handler_values = by_text.get((intent, action.get('msg')), [])
            if handler_values:
                expected = [_normal(comm.unwrap(v)) if not (isinstance(v, tuple) and v and v[0] == 'raised')
                            else ('exception', 'RemoteException', '') for v in handler_values]
                expected = [e if e[0] != 'exception' else ('exception', 'RemoteException', '') for e in expected]
                got = _normal(outcome)
                if got[0] == 'exception':
                    got = ('exception', got[1], '')
                if got not in expected:
                    result.violate('reply_vs_call', intent, f'reply to {intent}({action.get("msg")!r}) is {got!r}, the '
                                                            f'handler\'s own call resolved to {expected!r}')
        if intent == 'play' and outcome[0] == 'value' and outcome[1] is not True:
            result.violate('reply_vs_call', 'play', f'reply to play is {outcome!r}')
        if intent == 'bogus' and outcome[0] != 'exception':
            result.violate('reply_vs_call', 'bogus', f'an unknown intent was answered with {outcome!r} instead of an error')

    # -- a kill handled while live ends the process ---------------------------------------------------------
    first_kill = next((i for i, e in enumerate(data['events']) if e[0] == 'call' and e[2] == 'kill' and e[4]), None)
    if first_kill is not None:
        final = proc.state.value
        raised = any(e[0] == 'raise' for e in data['events'])
        if not (final == 'killed' or (final == 'excepted' and raised)):
            result.violate('remote_kill_lost', final, f'a kill request handled while the process was live left it {final}')

    # -- a play message handled while live withdraws a pause that has not taken effect yet, like the call ------------------
    # judged where the environment takes over (first drive-out action, else the end): if the last pause/play request the
    # process got - as a message or as a call of its own - was a play, it is not paused then
    last_control, paused_now = None, False
    for event in data['events']:
        if event[0] == 'act' and event[3] == 'driveout':
            break
        if event[0] == 'msg' and event[4] and event[3] in ('pause', 'play'):
            last_control = event[3]
        elif event[0] == 'call' and event[2] in ('pause', 'play') and event[4]:
            last_control = event[2]
        elif event[0] == 'sample':
            paused_now = bool(event[2]) and not event[3]
    if last_control == 'play' and paused_now and flavour in ('timed', 'quiescent') and not case.get('fault'):
        result.violate('remote_play_lost', 'paused', 'the last pause/play request handled while the process was live was a play, '
                                                     'yet the process sits paused when nothing is left to run')

    # -- announcements ----------------------------------------------------------------------------------------
    # (a process recreated from a checkpoint enters no state when it is loaded: its first announcement is its next transition)
    expected = ([] if case['opts'].get('via_bundle') else ['state_changed.None.created']) \
        + [f'state_changed.{frm}.{to}' for frm, to in engine.transitions]
    sent_all = [(s, sender) for s, sender, _ in data['sent'] if str(s).startswith('state_changed')]
    # children started with Process.launch share the communicator: they announce themselves under their own pids and can be
    # reached like any other process
    # (children of the process that only existed to be checkpointed lived in its own loop, without a communicator)
    children = [child for child in engine.world.children if child.loop is engine.loop]
    child_pids = [child.pid for child in engine.world.children]
    for child in children:
        result.counters['probe:launched_child'] += 1
        if not any(sender == child.pid for _, sender in sent_all):
            result.violate('broadcast_sequence', 'child_silent', f'a child started with launch() never announced a state '
                                                                 f'change (its pid {child.pid!r} sent nothing)')
    sent = [(s, sender) for s, sender in sent_all if sender not in child_pids]
    if [s for s, _ in sent] != expected:
        result.violate('broadcast_sequence', 'sent', f'announced {[s for s, _ in sent]}, completed transitions {expected}')
    elif any(sender != pid for _, sender in sent):
        result.violate('broadcast_sequence', 'sender', f'state_changed broadcast sent by {set(s for _, s in sent)}, pid is {pid!r}')
    seen = [(s, sender) for s, sender in data['seen'] if str(s).startswith('state_changed')]
    if seen != sent_all:
        result.violate('broadcast_sequence', 'subscriber', f'the independent subscriber received {seen}, sent were {sent}')

    # -- after termination ----------------------------------------------------------------------------------
    if proc.has_terminated():
        failed_removals = set(case['opts'].get('unsubscribe_timeouts') or [])
        left = [kind for kind, table in (('rpc', communicator._rpc_subscribers), ('broadcast', communicator._broadcast_subscribers))
                if str(pid) in table and kind not in failed_removals]
        if left:
            result.violate('still_subscribed', proc.state.value, f'a terminated process is still subscribed under its pid: {left}'
                                                                 f' (removals that were made to fail: {sorted(failed_removals)})')
        if late_reply is not None and not failed_removals:
            result.counters['probe:late_message'] += 1
            if len(calls) != calls_before_late:
                result.violate('late_message_handled', 'call', f'a message sent after termination reached '
                                                               f'{calls[calls_before_late][0]}()')
            outcome = comm.unwrap(late_reply)
            if outcome[0] != 'exception' or outcome[1] != 'UnroutableError':
                result.violate('late_message_handled', 'reply', f'an RPC to a terminated process was answered with {outcome!r}')
    if flavour == 'subtimeout':
        if communicator.subscribe_timeouts_fired == 0 and not case['opts'].get('unsubscribe_timeouts'):
            raise RuntimeError('subscribe timeout was not injected')
        if case['opts'].get('unsubscribe_timeouts'):
            result.counters['unsubscribe_timeouts_fired'] += communicator.unsubscribe_timeouts_fired
        reference = common.reference_run(case['program'])
        if common.outcome(proc) != reference['outcome'] and data['drive'] == 'terminated':
            result.violate('subscribe_timeout', 'outcome', f'with a timed-out registration the process ended '
                                                           f'{common.outcome(proc)} instead of {reference["outcome"]}')
        elif data['drive'] != 'terminated':
            result.violate('subscribe_timeout', 'stuck', f'with a timed-out registration the run did not complete: {data["drive"]}')


def _compare_twin(first, twin, result):
    if first['view'] != twin['view']:
        diff = next((i for i, (a, b) in enumerate(zip(first['view'], twin['view'])) if a != b),
                    min(len(first['view']), len(twin['view'])))
        a = first['view'][diff] if diff < len(first['view']) else None
        b = twin['view'][diff] if diff < len(twin['view']) else None
        result.violate('twin_effect', 'events', f'remote and direct control diverge at process event #{diff}: remote {a!r}, '
                                                f'direct {b!r}')
    elif first['outcome'] != twin['outcome']:
        result.violate('twin_effect', 'outcome', f'remote {first["outcome"]} vs direct {twin["outcome"]}')
    direct_by_index = {r[0]: r for r in twin['replies']}
    for index, intent, broadcast, outcome in first['replies']:
        other = direct_by_index.get(index)
        if other is None or other[2]:
            continue
        if outcome != other[3]:
            result.violate('twin_reply', intent, f'reply to {intent} #{index}: remote {outcome!r}, direct call {other[3]!r}')

# -*- coding: utf-8 -*-
"""C10 - ToContext is a barrier: the next step sees every awaited result.

Oracle clauses:
  barrier_passed_early   a step after a barrier started while an awaited future / child was not done
  ctx_value              at the entry of the step after the barrier ctx[key] is not the result of the awaitable last
                         assigned to that key
  failure_ignored        an awaited item failed or was killed but the workchain did not end EXCEPTED
  wrong_exception        ... or ended EXCEPTED with something else than one of the failing items' own exception instances
  step_after_failure     the step following the barrier ran although an awaited item had failed
  spurious_failure       every awaited item completed successfully but the workchain did not finish
"""
import copy

from checks import common
from simkit import programs
from simkit.loop import TickLimit
from simkit.runner import Result

PROPERTY = 'C10'
LEVEL = 'exploration'
RULE = (
    'cases = workchain A;B;C where A (and sometimes B, re-assigning a key) hands 1-4 awaitables to the context - bare '
    'futures and launched child processes with virtual run times - by returning ToContext, calling to_context, or both, x '
    'schedule completing each item (value | exception | child killed) in every order, at the same or different loop '
    'positions; items the schedule leaves open are completed one by one at quiescence.  Systematic part: all completion '
    'orders and outcome mixes of 2-3 bare futures at neighbouring positions.  Non-trivial = at least two awaited items, or '
    'a failing/killed item; distinct = distinct event-log digest.'
)
BUDGET = {'quick': (80000, 55), 'thorough': (2_000_000, 600)}
COMPONENTS = dict(common.COMPONENTS, real=common.COMPONENTS['real'] + [
    'plumpy.workchains (WorkChain._do_step, to_context, Waiting with awaitables, steppers)', 'Process.launch (children)'])
ASSUMPTIONS = ['FIFO ready queue']
EXPECTED_COUNTERS = ['probe:same_key_twice_in_one_step', 'probe:paused_around_completions', 'shape:if_last', 'shape:while_last', 'shape:nested_if', 'probe:all_items_already_complete', 'probe:child_launched_in_earlier_step', 'items:1', 'items:2', 'items:3', 'items:4', 'probe:child_killed', 'probe:future_failed', 'probe:child_raised',
                     'probe:reassigned_key', 'probe:completed_before_waiting', 'via:ret', 'via:call', 'via:both', 'end:finished',
                     'end:excepted']
_sys_cache = {}


def child_program(duration, outcome, tag):
    ret = {'t': 'value', 'v': tag} if outcome == 'ok' else {'t': 'raise', 'msg': f'child-{tag}'}
    return {'kind': 'process', 'inputs': None,
            'steps': [{'async': True, 'awaits': [duration], 'effects': [[{'e': 'out', 'k': 'r', 'v': tag}], []], 'ret': ret}]}


def make_program(items_a, via, items_b=None, shape='flat'):
    """items: list of (key, aref) ; via: 'ret' | 'call' | 'both'."""
    def step(items):
        effects, returned = [], {}
        for index, (key, aref) in enumerate(items):
            how = via if via != 'both' else ('call' if index % 2 == 0 else 'ret')
            if key in returned:
                how = 'call'  # a second awaitable under a key that is already being returned can only be handed over by a call
            if how == 'call':
                effects.append({'e': 'toctx', 'key': key, 'ref': aref})
            else:
                returned[key] = aref
        return {'effects': effects, 'ret': {'t': 'tocontext', 'items': returned} if returned else None}

    steps = {'A': step(items_a), 'B': step(items_b or []), 'C': {'effects': [], 'ret': None},
             'X': {'effects': [], 'ret': None}}
    outline, preds = SHAPES[shape]
    return {'kind': 'workchain', 'outline': copy.deepcopy(outline), 'steps': steps, 'preds': copy.deepcopy(preds), 'children': [],
            'shape': shape}


# Where the steps that hand over awaitables sit in the outline: A, B, C are executed once each and in this order in every
# shape (X is a filler that does nothing); what differs is which stepper has to pass the ToContext on and resume after it.
_T, _F, _ONCE = {'pt': [True]}, {'pf': [False]}, {'pw': [True, False]}
A, B, C, X = ['s', 'A'], ['s', 'B'], ['s', 'C'], ['s', 'X']
SHAPES = {
    'flat': ([A, B, C], {}),
    'if_last': ([['if', [['pt', [A]]], None], B, C], _T),
    'else_last': ([['if', [['pf', [X]]], [A]], B, C], _F),
    'elif_last': ([['if', [['pf', [X]], ['pt', [A]]], None], B, C], dict(_T, **_F)),
    'if_second': ([['if', [['pt', [X, A]]], None], B, C], _T),
    'if_both': ([['if', [['pt', [A, B]]], None], C], _T),
    'if_b': ([A, ['if', [['pt', [B]]], None], C], _T),
    'while_last': ([['while', 'pw', [A]], B, C], _ONCE),
    'while_both': ([['while', 'pw', [A, B]], C], _ONCE),
    'nested_if': ([['if', [['pt', [['if', [['pt2', [A]]], None]]]], None], B, C], {'pt': [True], 'pt2': [True]}),
    'while_if': ([['while', 'pw', [['if', [['pt', [A]]], None]]], B, C], dict(_T, **_ONCE)),
    'if_while': ([['if', [['pt', [['while', 'pw', [A]], B]]], None], C], dict(_T, **_ONCE)),
}


def systematic(tier):
    if tier in _sys_cache:
        return _sys_cache[tier]
    import itertools
    cases = []
    for n in (2, 3):
        program = make_program([(f'k{i}', {'fut': i}) for i in range(n)], 'ret')
        for order in itertools.permutations(range(n)):
            for outcomes in itertools.product(['value', 'exc'], repeat=n):
                for pos in (1, 2, 3):
                    for spread in (0, 1):
                        schedule = [{'act': 'complete', 'fut': fut, 'how': outcomes[fut], 'v': f'v{fut}', 'at': pos + spread * j}
                                    for j, fut in enumerate(order)]
                        cases.append({'program': program, 'schedule': schedule, 'opts': {}, 'origin': f'systematic:{n}'})
    for n in (1, 2):
        for outcomes in itertools.product(['value', 'exc'], repeat=n):
            for via in ('ret', 'call'):
                program = make_program([(f'k{i}', {'fut': i, 'pre': outcomes[i], 'v': f'pre{i}'}) for i in range(n)], via)
                cases.append({'program': program, 'schedule': [], 'opts': {}, 'via': via, 'origin': 'systematic:pre'})
    for shape in sorted(SHAPES):
        for via in ('ret', 'call'):
            program = make_program([('k0', {'fut': 0}), ('k1', {'fut': 1})], via, [('k2', {'fut': 2})], shape)
            for order in ((0, 1, 2), (1, 0, 2)):
                schedule = [{'act': 'complete', 'fut': fut, 'how': 'value', 'v': f'v{fut}', 'at': 40 + j}
                            for j, fut in enumerate(order)]
                cases.append({'program': program, 'schedule': schedule, 'opts': {}, 'via': via, 'origin': f'systematic:{shape}'})
    _sys_cache[tier] = cases
    return cases


def random_case(rng, tier):
    n_items = rng.randint(1, 4)
    via = rng.choice(['ret', 'call', 'both'])
    children = []
    items_a = []
    fut_id = 0
    for index in range(n_items):
        if rng.random() < 0.4:
            children.append(child_program(rng.choice([0, 0.5, 1, 2]), 'ok' if rng.random() < 0.75 else 'raise', f'c{len(children)}'))
            items_a.append((f'k{index}', {'child': len(children) - 1}))
        else:
            items_a.append((f'k{index}', {'fut': fut_id}))
            fut_id += 1
    if rng.random() < 0.15:
        # two awaitables handed over under the SAME key by one step: both are awaited (which result ends up under the key
        # is not specified and not checked)
        items_a.append((rng.choice(items_a)[0], {'fut': fut_id}))
        fut_id += 1
    for index, (key, aref) in enumerate(items_a):
        if 'fut' in aref and rng.random() < 0.2:
            # already complete when the step hands it over
            aref['pre'] = 'value' if rng.random() < 0.7 else 'exc'
            aref['v'] = f'pre{aref["fut"]}'
    items_b = []
    if rng.random() < 0.35:
        key = rng.choice(items_a)[0] if rng.random() < 0.7 else 'extra'
        aref = {'fut': fut_id}
        if rng.random() < 0.3:
            aref.update(pre='value' if rng.random() < 0.7 else 'exc', v=f'pre{fut_id}')
        items_b.append((key, aref))
        fut_id += 1
    early = []
    if rng.random() < 0.3:
        # children launched (not awaited) in A and handed to the context only in B, by when they may have finished
        for _ in range(rng.randint(1, 2)):
            children.append(child_program(rng.choice([0, 0.5, 1]), 'ok' if rng.random() < 0.7 else 'raise', f'c{len(children)}'))
            early.append(len(children) - 1)
            items_b.append((f'e{len(children) - 1}', {'child_ref': len(children) - 1}))
    shape = 'flat' if rng.random() < 0.4 else rng.choice(sorted(SHAPES))
    program = make_program(items_a, via, items_b, shape)
    if rng.random() < 0.2:
        for name in ('A', 'B'):
            if program['steps'][name]['ret']:
                program['steps'][name]['ret']['cls'] = 'ordered'
    for child_index in early:
        program['steps']['A']['effects'].insert(0, {'e': 'launchonly', 'child': child_index})
    program['children'] = children
    ticks, notify, _ = common.dry_run(program)
    schedule = []
    pre_resolved = {aref['fut'] for _, aref in items_a + items_b if 'fut' in aref and aref.get('pre')}
    order = [f for f in range(fut_id) if f not in pre_resolved]
    rng.shuffle(order)
    position = rng.randint(0, ticks + 1)
    for fut in order:
        if rng.random() < 0.2:
            continue  # left to the drive-out
        if rng.random() < 0.5:
            position = rng.randint(0, ticks + 2)
        how = 'value' if rng.random() < 0.75 else ('exc' if rng.random() < 0.75 else 'cancel')  # a cancelled item is a failed one
        value = f'v{fut}' if rng.random() < 0.85 else '__uncopyable__'
        schedule.append({'act': 'complete', 'fut': fut, 'how': how, 'v': value, 'at': position})
        if how == 'exc' and rng.random() < 0.4:
            schedule[-1]['exc'] = rng.choice(sorted(programs.PROGRAM_ERRORS))  # e.g. a KeyError or an AttributeError
    for index in range(len(children)):
        if rng.random() < 0.25:
            schedule.append({'act': 'killchild', 'child': index, 'at': rng.randint(0, ticks + 2), 'msg': f'kill-c{index}'})
    opts = {}
    if rng.random() < 0.25:
        # pause / play requests around the completions (same or neighbouring positions): the barrier and the fate of a failed
        # item do not depend on them
        positions = [a['at'] for a in schedule if 'at' in a] or [rng.randint(0, ticks + 2)]
        for _ in range(rng.randint(1, 3)):
            schedule.append({'act': rng.choice(['pause', 'pause', 'play']), 'at': max(0, rng.choice(positions) + rng.choice([0, 0, 0, 1, -1]))})
        opts['final_play'] = True
    rng.shuffle(schedule)
    return {'program': program, 'schedule': schedule, 'opts': opts, 'via': via}


def shrink(case):
    for i in range(len(case['schedule'])):
        candidate = copy.deepcopy(case)
        del candidate['schedule'][i]
        yield candidate
    for i, action in enumerate(case['schedule']):
        if action.get('at', 0) > 0:
            candidate = copy.deepcopy(case)
            candidate['schedule'][i]['at'] = action['at'] - 1
            yield candidate
        if action.get('how') == 'exc':
            candidate = copy.deepcopy(case)
            candidate['schedule'][i]['how'] = 'value'
            yield candidate
    for name in ('A', 'B'):
        step = case['program']['steps'][name]
        for ei in range(len(step['effects'])):
            candidate = copy.deepcopy(case)
            del candidate['program']['steps'][name]['effects'][ei]
            yield candidate
        if step['ret']:
            for key in list(step['ret']['items']):
                candidate = copy.deepcopy(case)
                del candidate['program']['steps'][name]['ret']['items'][key]
                if not candidate['program']['steps'][name]['ret']['items']:
                    candidate['program']['steps'][name]['ret'] = None
                yield candidate


def run(case):
    result = Result()
    engine = common.new_engine(case, record_hooks=False)
    try:
        if not engine.start():
            raise RuntimeError(f'construction failed: {engine.construct_error!r}')
        try:
            engine.run_schedule()
            drive = engine.drive_out()
        except TickLimit as exc:
            result.violate('spurious_failure', 'runaway', f'the run does not come to rest: {exc}')
        else:
            _oracle(engine, result, case, drive)
        common.finish_result(engine, result)
    finally:
        common.close_engine(engine)
    return result


def _items_of(step):
    items = []
    for eff in step.get('effects') or []:
        if eff['e'] == 'toctx':
            items.append((eff['key'], eff['ref']))
    if step.get('ret') and step['ret']['t'] == 'tocontext':
        items.extend(step['ret']['items'].items())
    return items


def _oracle(engine, result, case, drive):
    plumpy = common.plumpy()
    world, proc = engine.world, engine.proc
    events = world.events
    program = case['program']
    order = ['A', 'B', 'C']
    barriers = {name: _items_of(program['steps'][name]) for name in order}
    n_items = len(barriers['A'])
    result.counters[f'items:{n_items}'] += 1
    result.counters[f'via:{case.get("via", "ret")}'] += 1
    result.counters[f'shape:{program.get("shape", "flat")}'] += 1
    if any(r.action['act'] == 'pause' and r.pre_live for r in engine.records):
        result.counters['probe:paused_around_completions'] += 1
    if len({k for k, _ in barriers['A']} & {k for k, _ in barriers['B']}):
        result.counters['probe:reassigned_key'] += 1
    for name in order:
        items = barriers[name]
        if items and all(('fut' in aref and aref.get('pre')) for _, aref in items):
            result.counters['probe:all_items_already_complete'] += 1
        if any('child_ref' in aref for _, aref in items):
            result.counters['probe:child_launched_in_earlier_step'] += 1

    def awaitable(aref):
        if 'fut' in aref:
            return world.futures.get(aref['fut'])
        children = world.child_by_index.get(aref.get('child', aref.get('child_ref'))) or []
        return children[-1].future() if children else None

    def failed(future):
        return future is not None and future.done() and (future.cancelled() or future.exception() is not None)

    for record in engine.records:
        if record.action['act'] == 'killchild' and record.result != 'skipped':
            result.counters['probe:child_killed'] += 1
        if record.action['act'] == 'complete' and record.result != 'skipped':
            if record.action.get('how') == 'exc':
                result.counters['probe:future_failed'] += 1
            if record.pre_state != 'waiting':
                result.counters['probe:completed_before_waiting'] += 1
    if any(c.has_terminated() and c.state.value == 'excepted' for c in world.children):
        result.counters['probe:child_raised'] += 1

    entries = {e[2]: e for e in events if e[0] == 'wstep'}
    ran = [name for name in order if name in entries]
    state = proc.state.value
    result.counters[f'end:{state}'] += 1
    result.nontrivial = n_items >= 2 or any(failed(awaitable(aref)) for name in order for _, aref in barriers[name])

    # which barrier (if any) contains a failed item, in program order
    failing_barrier = None
    for name in order:
        if name not in entries:
            break
        if any(failed(awaitable(aref)) for _, aref in barriers[name]):
            failing_barrier = name
            break

    # entries of steps after a barrier: everything awaited so far is done, values are in ctx
    assigned = {}
    for index, name in enumerate(order):
        if name not in entries:
            break
        if index > 0:
            previous = order[index - 1]
            for key, aref in barriers[previous]:
                assigned[key] = aref
            awaited_labels = set()
            for prior in order[:index]:
                for _, aref in barriers[prior]:
                    if 'fut' in aref:
                        awaited_labels.add(f'fut{aref["fut"]}')
                    else:
                        kids = world.child_by_index.get(aref.get('child', aref.get('child_ref'))) or []
                        awaited_labels.update(programs.label(k) for k in kids)
            pending = [p for p in entries[name][7] if p in awaited_labels]
            if pending:
                result.violate('barrier_passed_early', name, f'step {name} started while {pending} were not done')
            view = entries[name][3]
            ambiguous = {key for prior in order[:index] for key, _ in barriers[prior]
                         if [k for k, _ in barriers[prior]].count(key) > 1}
            if ambiguous:
                result.counters['probe:same_key_twice_in_one_step'] += 1
            for key, aref in assigned.items():
                if key in ambiguous:
                    continue
                future = awaitable(aref)
                if future is None or not future.done() or failed(future):
                    continue
                want = programs.freeze(future.result())
                if view.get(key) != want:
                    result.violate('ctx_value', f'{name}:{"child" if "child" in aref else "future"}',
                                   f'at the entry of {name} ctx[{key}] is {view.get(key)!r}, the awaitable last assigned '
                                   f'to it completed with {want!r}')

    if failing_barrier is not None:
        own = []
        for _, aref in barriers[failing_barrier]:
            future = awaitable(aref)
            if failed(future) and not future.cancelled():
                own.append(future.exception())
        follower = order[order.index(failing_barrier) + 1] if failing_barrier != 'C' else None
        if state != 'excepted':
            result.violate('failure_ignored', failing_barrier, f'an item awaited after {failing_barrier} failed or was killed '
                                                               f'but the workchain ended {state} (drive-out: {drive})')
        elif 'Cancelled' in type(proc.exception()).__name__ and any(
                awaitable(aref) is not None and awaitable(aref).cancelled() for _, aref in barriers[failing_barrier]):
            result.counters['probe:awaited_item_cancelled'] += 1  # (a cancelled item has no exception instance of its own)
        elif not any(proc.exception() is exc for exc in own):
            result.violate('wrong_exception', failing_barrier, f'exception() is {proc.exception()!r}, the failing items raised '
                                                               f'{own!r}')
        if follower is not None and follower in entries:
            result.violate('step_after_failure', follower, f'step {follower} ran although an item awaited before it failed')
    else:
        if state != 'finished' or ran != order:
            result.violate('spurious_failure', state, f'every awaited item completed successfully but the workchain ended '
                                                      f'{state} after steps {ran} (drive-out: {drive}, {proc.exception()!r})')

# -*- coding: utf-8 -*-
"""C02 - all reports of a terminated process's outcome agree and waiters are released.

Oracle clauses:
  future_while_live     the process future is never resolved while the process is live (sampled after every handle)
  future_not_resolved   a terminated process's future is done
  finished_reports      FINISHED: future resolves to the outputs; result()/successful()/is_successful = last step's result
  excepted_reports      EXCEPTED: future, exception() and result() give the original exception instance
  killed_reports        KILLED: future raises KilledError, killed(), killed_msg() carries the kill text
  terminal_notification listeners receive exactly one terminal notification, of the matching kind
  cleanups              every registered cleanup ran exactly once
  not_closed            the terminated process is closed (refuses further work with ClosedError)
  stepper_blocked       the task running step_until_terminated() has returned (normally)
"""
from checks import common
from simkit import programs
from simkit.runner import Result

PROPERTY = 'C02'
LEVEL = 'exploration'
RULE = (
    'cases = generated process program x schedule of up to K pause/play/kill/resume requests placed before any loop '
    'handle, from listener notifications during transitions (incl. kill from a listener), or at quiescence (incl. kill '
    'while paused, kill during a step), completed by play/resume until termination.  Expected outcome comes from the '
    'program text (reference model).  Non-trivial = a request landed while live and in flight; distinct = distinct '
    'event-log digest.'
)
BUDGET = {'quick': (150000, 55), 'thorough': (4_000_000, 600)}
COMPONENTS = common.COMPONENTS
ASSUMPTIONS = ['FIFO ready queue', 'future().cancel() is not issued here (C04 covers it)', 'hooks do not raise']
EXPECTED_COUNTERS = ['probe:with_communicator', 'probe:listener_failed_in_notification', 'kind:workchain', 'probe:listener_removes_itself_in_terminal_notification', 'probe:failed_while_paused', 'probe:kill_while_paused', 'probe:kill_during_step', 'probe:kill_from_listener',
                     'probe:terminated_while_paused', 'final:finished', 'final:excepted', 'final:killed']
KINDS = ['pause', 'play', 'kill', 'resume']
KINDS_WITH_FAIL = KINDS + ['fail']
PROGRAM_CFG = {
    'uncopyable_outputs': True,
    'future_results': True,
    'max_steps': 4,
    'rets': ['value', 'value', 'stop', 'unsuccessful', 'kill', 'raise'],
    'effects': ['out', 'out', 'status', 'callsoon'],
    'selfacts': ['pause', 'kill'],
    'p_selfact': 0.1,
    'p_required_output': 0.2,
}
_sys_cache = {}


def systematic(tier):
    if tier in _sys_cache:
        return _sys_cache[tier]
    cases = []
    max_len = 2 if tier == 'quick' else 3
    for name, program in programs.canonical_programs().items():
        ticks, notify, _ = common.dry_run(program)
        for schedule in common.systematic_schedules(['pause', 'play', 'kill'], list(range(0, ticks + 1)), max_len):
            cases.append({'program': program, 'schedule': schedule, 'opts': {}, 'origin': f'systematic:{name}'})
        for event, count in sorted(notify.items()):
            for k in range(count):
                cases.append({'program': program, 'schedule': [{'act': 'kill', 'on': [event, k], 'msg': 'from-listener'}],
                              'opts': {}, 'origin': f'systematic:{name}:listener'})
    _sys_cache[tier] = cases
    return cases


def random_case(rng, tier):
    is_wc = rng.random() < 0.2
    if is_wc:
        program = common.gen_workchain_with_awaitables(rng)
    else:
        program = programs.gen_process_program(rng, PROGRAM_CFG)
    ticks, notify, _ = common.dry_run(program)
    max_actions = 4 if tier == 'quick' else 6
    with_fail = rng.random() < 0.3 and not is_wc
    if is_wc:
        schedule = common.gen_schedule(rng, ['pause', 'play', 'kill', 'complete', 'complete'], max_actions, ticks, notify)
        for action in schedule:
            if action['act'] == 'complete':
                fut = rng.randrange(max(program.get('n_futures', 1), 1))
                action.update(fut=fut, how=rng.choice(['value', 'value', 'value', 'exc']), v=f'v{fut}')
        return {'program': program, 'schedule': schedule, 'opts': {'cleanups': rng.randint(1, 3)}}
    if with_fail:
        # terminations caused from outside the step: fail() and callbacks that raise
        program = programs.gen_process_program(rng, dict(PROGRAM_CFG, p_fail_callback=0.5, effects=['out', 'callsoon', 'callsoon']))
        ticks, notify, _ = common.dry_run(program)
    schedule = common.gen_schedule(rng, KINDS_WITH_FAIL if with_fail else KINDS, max_actions, ticks, notify)
    opts = {'cleanups': rng.randint(1, 3)}
    if rng.random() < 0.3:
        opts['oneshot'] = True
    if rng.random() < 0.3:
        opts['register_twice'] = True
    if rng.random() < 0.25:
        opts['cleanup_raises'] = True
    if rng.random() < 0.2:
        opts['late_output'] = True
    if rng.random() < 0.2:
        opts['cleanup_registers'] = True
    if rng.random() < 0.15:
        opts['listener_closes'] = True
    case_fault = None
    if rng.random() < 0.15:
        # one listener fails in a notification: nothing about the process changes and the OTHER listener is still told
        opts['second'] = True
        case_fault = ['listener:' + rng.choice(['finished', 'excepted', 'killed', 'running', 'waiting', 'paused']), 0]
    case = {'program': program, 'schedule': schedule, 'opts': common.with_communicator(rng, opts)}
    if case_fault:
        case['fault'] = case_fault
    return case


def shrink(case):
    if case['program'].get('kind') == 'workchain':
        import copy
        for i in range(len(case['schedule'])):
            candidate = copy.deepcopy(case)
            del candidate['schedule'][i]
            yield candidate
        return
    yield from common.shrink_control(case)


def run(case):
    result = Result()
    engine = common.new_engine(case, record_hooks=False, fault=case.get('fault'))
    try:
        if not engine.start():
            raise RuntimeError(f'construction failed: {engine.construct_error!r}')
        engine.run_schedule()
        drive = engine.drive_out()
        _oracle(engine, result, case, drive)
        common.finish_result(engine, result)
        result.nontrivial = common.nontrivial_by_context(engine)
    finally:
        common.close_engine(engine)
    return result


def _oracle(engine, result, case, drive):
    plumpy = common.plumpy()
    world, proc = engine.world, engine.proc
    events = world.events

    for record in engine.records:
        if record.action['act'] == 'fail' and record.pre_live and 'paused' in record.context:
            result.counters['probe:failed_while_paused'] += 1
        if record.action['act'] == 'kill' and record.pre_live:
            if 'paused' in record.context:
                result.counters['probe:kill_while_paused'] += 1
            if 'stepping' in record.context:
                result.counters['probe:kill_during_step'] += 1
            if record.where == 'listener':
                result.counters['probe:kill_from_listener'] += 1

    # the future is never resolved while the process is live (samples: tick, state, paused, terminated, future_done)
    for tick, state, paused, terminated, future_done in engine.samples:
        if future_done and not terminated:
            result.violate('future_while_live', state, f'future done while the process is {state} (tick {tick})')
            break
        if terminated and paused:
            result.counters['probe:terminated_while_paused'] += 1

    if not proc.has_terminated():
        # not this property's business (lost wake-ups / lost kills are C04, C06); nothing to compare
        result.counters['end:not_terminated'] += 1
        return

    state = proc.state.value
    result.counters[f'final:{state}'] += 1
    future = proc.future()
    if not future.done():
        result.violate('future_not_resolved', state, f'process is {state} but its future is not done')
    else:
        if state == 'finished' and case['program'].get('kind') == 'workchain':
            result.counters['kind:workchain'] += 1
            reference = common.reference_run(case['program'], {'cleanups': 0, 'late_output': case['opts'].get('late_output')})
            problems = []
            if future.cancelled() or future.exception() is not None:
                problems.append('future does not hold a result')
            elif future.result() != proc.outputs:
                problems.append(f'future result {future.result()!r} != outputs {proc.outputs!r}')
            all_values = all(r.action.get('how', 'value') == 'value' for r in engine.records if r.action['act'] == 'complete')
            if all_values and reference['outcome'].get('state') == 'finished':
                mine = common.outcome(proc)
                for key in ('result', 'successful', 'outputs'):
                    if mine.get(key) != reference['outcome'].get(key):
                        problems.append(f'{key} {mine.get(key)!r} != uninterrupted run {reference["outcome"].get(key)!r}')
            if proc.successful() != proc.is_successful:
                problems.append('successful() and is_successful disagree')
            for problem in problems:
                result.violate('finished_reports', problem.split(' ')[0], problem)
        elif state == 'finished':
            model = programs.model_run(case['program'])
            problems = []
            if future.cancelled() or future.exception() is not None:
                problems.append('future does not hold a result')
            else:
                if future.result() is not proc.outputs and future.result() != proc.outputs:
                    problems.append(f'future result {future.result()!r} != outputs {proc.outputs!r}')
                if case['opts'].get('late_output'):
                    model['outputs'] = dict(model['outputs'], late='emitted on entering FINISHED')
                if programs.freeze(proc.outputs) != programs.freeze(model['outputs']) and model['final'] == 'finished':
                    problems.append(f'outputs {proc.outputs!r} != emitted by the program {model["outputs"]!r}')
            if model['final'] == 'finished':
                if programs.freeze(proc.result()) != programs.freeze(model['result']):
                    problems.append(f'result() {proc.result()!r} != last step result {model["result"]!r}')
                if proc.successful() != model['ok'] or proc.is_successful != model['ok']:
                    problems.append(f'successful()={proc.successful()} is_successful={proc.is_successful} expected {model["ok"]}')
            else:
                problems.append(f'ended FINISHED but the program ends {model["final"]}')
            if proc.killed() or proc.exception() is not None or proc.is_excepted:
                problems.append('killed()/exception() disagree with FINISHED')
            for problem in problems:
                result.violate('finished_reports', problem.split(' ')[0], problem)
        elif state == 'excepted':
            candidates = list(world.program_errors) + list(world.callback_errors) + list(world.awaitable_errors.values())
            raised = next((c for c in candidates if c is proc.exception()), None)
            if raised is None and candidates:
                raised = candidates[-1]
            problems = []
            if future.cancelled() or future.exception() is None:
                problems.append('future does not raise')
            elif raised is not None and future.exception() is not raised:
                problems.append(f'future exception {future.exception()!r} is not the raised {raised!r}')
            if raised is not None and proc.exception() is not raised:
                problems.append(f'exception() {proc.exception()!r} is not the raised {raised!r}')
            try:
                proc.result()
                problems.append('result() does not raise')
            except BaseException as exc:  # noqa: BLE001
                if raised is not None and exc is not raised:
                    problems.append(f'result() raises {exc!r}, not the raised {raised!r}')
            if raised is None:
                problems.append(f'ended EXCEPTED with {proc.exception()!r} although no user code raised')
            if proc.killed() or proc.is_successful:
                problems.append('killed()/is_successful disagree with EXCEPTED')
            for problem in problems:
                result.violate('excepted_reports', problem.split(' ')[0], problem)
        elif state == 'killed':
            problems = []
            if future.cancelled() or not isinstance(future.exception(), plumpy.KilledError):
                problems.append(f'future does not raise KilledError ({future!r})')
            if not proc.killed():
                problems.append('killed() is False')
            texts = [e[3] for e in events if e[0] == 'call' and e[2] == 'kill' and e[4]]
            program_texts = [] if case['program'].get('kind') == 'workchain' else \
                [s['ret'].get('msg') for s in case['program']['steps'] if s['ret']['t'] == 'kill']
            message = proc.killed_msg()
            recorded = message.get('message') if isinstance(message, dict) else message
            allowed = set(texts[:1]) | set(program_texts)
            if recorded not in allowed:
                problems.append(f'killed_msg text {recorded!r} not in {allowed!r}')
            if isinstance(future.exception(), plumpy.KilledError) and (recorded or '') != str(future.exception()):
                problems.append(f'KilledError text {str(future.exception())!r} != killed_msg text {recorded!r}')
            try:
                proc.result()
                problems.append('result() does not raise')
            except plumpy.KilledError:
                pass
            except BaseException as exc:  # noqa: BLE001
                problems.append(f'result() raises {exc!r}')
            if proc.is_successful or proc.exception() is not None:
                problems.append('is_successful/exception() disagree with KILLED')
            for problem in problems:
                result.violate('killed_reports', problem.split(' ')[0], problem)

    # exactly one terminal notification, of the matching kind
    terminal = [e[2] for e in events if e[0] == 'notify' and e[2] in ('finished', 'excepted', 'killed')]
    if terminal != [state]:
        result.violate('terminal_notification', f'{state}:{"+".join(terminal) or "none"}',
                       f'terminal notifications {terminal} for a process that ended {state}')
    payload = [e[3] for e in events if e[0] == 'notify' and e[2] == state]
    if payload:
        got = payload[0][0] if payload[0] else None
        if state == 'finished':
            want = programs.freeze(proc.outputs)
        elif state == 'excepted':
            want = str(proc.exception())
        else:
            want = programs.freeze(proc.killed_msg())
        if got != want:
            result.violate('terminal_notification', f'payload:{state}', f'the {state} notification carried {got!r}, the process '
                                                                        f'reports {want!r}')
    if engine.opts.get('second') and engine.world.fault_fired is not None:
        result.counters['probe:listener_failed_in_notification'] += 1
    if engine.opts.get('oneshot') or engine.opts.get('second'):
        if engine.opts.get('oneshot'):
            result.counters['probe:listener_removes_itself_in_terminal_notification'] += 1
        second = [e[2] for e in events if e[0] == 'notify2' and e[2] in ('finished', 'excepted', 'killed')]
        if second != [state]:
            result.violate('terminal_notification', f'second:{state}:{"+".join(second) or "none"}',
                           f'a second listener received terminal notifications {second} for a process that ended {state}')
    for ident, count in engine.cleanups_run.items():
        if count != 1:
            result.violate('cleanups', f'ran:{count}', f'cleanup {ident} ran {count} times')
            break
    try:
        proc.add_cleanup(lambda: None)
        result.violate('not_closed', state, 'terminated process still accepts add_cleanup()')
    except plumpy.ClosedError:
        pass
    except BaseException as exc:  # noqa: BLE001
        result.violate('not_closed', type(exc).__name__, f'add_cleanup raised {exc!r} instead of ClosedError')
    if engine.communicator is not None:
        # the clean-ups of the process itself: it is no longer subscribed to its communicator
        result.counters['probe:with_communicator'] += 1
        left = sorted(map(str, getattr(engine.communicator, '_rpc_subscribers', {}))) \
            + sorted(map(str, getattr(engine.communicator, '_broadcast_subscribers', {})))
        if left:
            result.violate('cleanups', 'still_subscribed', f'the terminated process is still subscribed to its communicator: {left}')
    task = engine.task
    if not task.done():
        result.violate('stepper_blocked', f'{state}|paused={proc.paused}',
                       f'process is {state} but step_until_terminated() has not returned (paused={proc.paused})')
    elif task.cancelled() or task.exception() is not None:
        result.violate('stepper_blocked', 'raised', f'step_until_terminated() ended with {task!r}')

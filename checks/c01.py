# -*- coding: utf-8 -*-
"""C01 - state changes follow the lifecycle graph; terminal states are final.

Oracle clauses (monitored during the run):
  first_state         the first observed state is CREATED
  illegal_transition  every completed transition (ENTERED_STATE event) is an edge of the documented graph
  broken_chain        consecutive transition events chain (to of one = from of the next)
  unannounced_change  the state sampled after a loop handle / control call is the target of the last transition event
  terminal_left       once FINISHED, EXCEPTED or KILLED has been observed, no control call, late callback or further
                      stepping changes the state again
"""
from checks import common
from simkit import programs
from simkit.runner import Result

PROPERTY = 'C01'
LEVEL = 'exploration'
RULE = (
    'cases = generated process program (all step commands, outputs, callbacks scheduled with call_soon including '
    'failing ones that fire after termination) x schedule of up to K pause/play/kill/resume/fail requests and late '
    'callbacks placed before any loop handle, from listener notifications, or after termination; every run ends with '
    'one more round of all control calls, a failing late callback and further stepping on the terminated process.  '
    'Non-trivial = a request landed while live and in flight, or after termination; distinct = distinct event-log digest.'
)
BUDGET = {'quick': (150000, 55), 'thorough': (4_000_000, 600)}
COMPONENTS = common.COMPONENTS
ASSUMPTIONS = ['FIFO ready queue', 'lifecycle hooks do not raise (C03 covers hooks that do)']
EXPECTED_COUNTERS = ['kind:workchain', 'probe:late_failing_callback_after_terminal', 'probe:fail_on_terminated', 'probe:kill_on_terminated',
                     'probe:resume_on_terminated', 'probe:step_on_terminated', 'probe:program_callback_fails_late']
KINDS = ['pause', 'play', 'kill', 'resume', 'fail', 'callback']
PROGRAM_CFG = {
    'uncopyable_outputs': True,
    'max_steps': 4,
    'rets': ['value', 'value', 'stop', 'unsuccessful', 'kill', 'raise'],
    'effects': ['out', 'status', 'callsoon', 'callsoon'],
    'p_fail_callback': 0.4,
    'selfacts': ['pause', 'play', 'kill'],
    'p_selfact': 0.1,
}
EDGES = {
    ('created', 'running'),
    ('running', 'running'), ('running', 'waiting'), ('running', 'finished'),
    ('waiting', 'running'), ('waiting', 'waiting'), ('waiting', 'finished'),
}
LIVE = ('created', 'running', 'waiting')
TERMINAL = ('finished', 'excepted', 'killed')
for _live in LIVE:
    EDGES.add((_live, 'killed'))
    EDGES.add((_live, 'excepted'))
_sys_cache = {}


def systematic(tier):
    if tier in _sys_cache:
        return _sys_cache[tier]
    cases = []
    max_len = 2 if tier == 'quick' else 3
    for name, program in programs.canonical_programs().items():
        ticks, notify, _ = common.dry_run(program)
        # everything after termination, in every order
        for schedule in common.systematic_schedules(KINDS, [ticks + 4], max_len):
            for action in schedule:
                if action['act'] == 'callback':
                    action['fail'] = True
            cases.append({'program': program, 'schedule': schedule, 'opts': {}, 'origin': f'systematic:{name}:late'})
        for schedule in common.systematic_schedules(['kill', 'fail', 'callback', 'pause'], list(range(0, ticks + 1)), 2):
            for action in schedule:
                if action['act'] == 'callback':
                    action['fail'] = True
            cases.append({'program': program, 'schedule': schedule, 'opts': {}, 'origin': f'systematic:{name}'})
    _sys_cache[tier] = cases
    return cases


# hooks of the entering phase, which run before the new state is in place (a hook that raises once the state has been
# entered is the subject of C03, not of this check: C01 assumes hooks that do not fail)
DIVERT_HOOKS = ['on_run', 'on_wait', 'on_finish', 'on_kill', 'on_entering']


def random_case(rng, tier):
    kinds = KINDS
    if rng.random() < 0.2:
        program = common.gen_workchain_with_awaitables(rng)
        kinds = KINDS + ['complete', 'complete']
    else:
        program = programs.gen_process_program(rng, PROGRAM_CFG)
    ticks, notify, _ = common.dry_run(program)
    max_actions = 4 if tier == 'quick' else 6
    if rng.random() < 0.15:
        # whoever runs the process gives up at some point (the stepping task is cancelled) and it is picked up again later
        kinds = kinds + ['cancel_stepper', 'cancel_stepper', 'restep']
    schedule = common.gen_schedule(rng, kinds, max_actions, ticks, notify, late=0.3)
    for action in schedule:
        if action['act'] == 'complete':
            action.update(fut=rng.randrange(max(program.get('n_futures', 1), 1)), how=rng.choice(['value', 'value', 'exc']), v='x')
    opts = {'cleanup_raises': True} if rng.random() < 0.25 else {}
    if program.get('kind') != 'workchain' and rng.random() < 0.2:
        # a hook refuses the state that is being entered and names another one (StateEntryFailed, as plumpy's own on_finish
        # does): wherever it sends the process, only edges of the graph may be taken
        opts['divert'] = {'site': 'hook:' + rng.choice(DIVERT_HOOKS), 'count': rng.choice([0, 0, 1, 2]),
                          'to': rng.choice(['finished', 'killed', 'excepted', 'waiting', 'running', 'created'])}
    case = {'program': program, 'schedule': schedule, 'opts': common.with_communicator(rng, opts)}
    if rng.random() < 0.1:
        # a listener fails (a failed assert) inside one of its notifications: that changes nothing about the process
        case['fault'] = ['listener:' + rng.choice(['finished', 'killed', 'excepted', 'running', 'waiting']), 0]
    return case


def shrink(case):
    if case['program'].get('kind') == 'workchain':
        import copy
        for i in range(len(case['schedule'])):
            candidate = copy.deepcopy(case)
            del candidate['schedule'][i]
            yield candidate
        return
    yield from common.shrink_control(case)


class Monitor:
    """Checks the lifecycle clauses as the run proceeds (called after every handle and every action)."""

    def __init__(self, engine, result):
        self.engine = engine
        self.result = result
        self.terminal = None
        self.seen_events = 0
        self.seen_transitions = 0
        self.last_target = 'created'
        self.last_cause = 'start'
        self.closed = False
        self.pending_cause = None

    def check(self, cause):
        engine, result = self.engine, self.result
        proc = engine.proc
        transitions = engine.transitions
        while self.seen_transitions < len(transitions):
            frm, to = transitions[self.seen_transitions]
            self.seen_transitions += 1
            if (frm, to) not in EDGES:
                result.violate('illegal_transition', f'{frm}->{to}', f'transition {frm} -> {to} is not in the lifecycle graph')
            if frm != self.last_target:
                result.violate('broken_chain', f'{self.last_target}|{frm}->{to}',
                               f'transition {frm} -> {to} follows a transition into {self.last_target}')
            self.last_target = to
        state = proc.state.value
        if self.terminal is not None and state == self.terminal:
            token = self.outcome_token(proc)
            if token != self.token:
                result.violate('terminal_left', f'{state}->{state}(outcome replaced):{cause}',
                               f'terminal state {state} was entered again with another outcome: {self.token!r} -> '
                               f'{token!r} (cause: {cause})')
                self.token = token
        if self.terminal is not None:
            if state != self.terminal:
                result.violate('terminal_left', f'{self.terminal}->{state}:{cause}',
                               f'state changed from terminal {self.terminal} to {state} (cause: {cause})')
                self.terminal = state if state in TERMINAL else None
                self.token = self.outcome_token(proc)
                self.last_target = state
        else:
            if state != self.last_target:
                result.violate('unannounced_change', f'{self.last_target}->{state}:{cause}',
                               f'state is {state} but the last announced transition went to {self.last_target}')
                self.last_target = state
            if state in TERMINAL:
                self.terminal = state
                self.token = self.outcome_token(proc)

    @staticmethod
    def outcome_token(proc):
        state = proc.state.value
        if state == 'excepted':
            exc = proc.exception()
            return (type(exc).__name__, str(exc)[:80], id(exc))
        if state == 'finished':
            return (repr(programs.freeze(proc.result())), proc.successful())
        if state == 'killed':
            return repr(proc.killed_msg())
        return None


def run(case):
    result = Result()
    engine = common.new_engine(case, record_hooks=False, fault=case.get('fault'))
    engine.world.assertion_faults = True
    try:
        if not engine.start():
            raise RuntimeError(f'construction failed: {engine.construct_error!r}')
        proc = engine.proc
        if proc.state.value != 'created':
            result.violate('first_state', proc.state.value, f'first observed state is {proc.state.value}')
        monitor = Monitor(engine, result)
        original_after = engine.after_handle
        original_fire = engine.fire

        def after_handle(loop):
            original_after(loop)
            monitor.check(monitor.pending_cause or 'handle')
            monitor.pending_cause = None

        def fire(index, where):
            pre_terminal = monitor.terminal
            record = original_fire(index, where)
            kind = record.action['act']
            if pre_terminal is not None:
                result.counters[f'probe:{kind}_on_terminated'] += 1
            if where != 'listener':
                # inside a listener notification the transition is still in progress (the public ENTERED_STATE
                # callbacks registered after the process's own have not run yet): checked after the handle instead
                monitor.check(f'{kind}')
            else:
                monitor.pending_cause = kind
            return record

        engine.after_handle = after_handle
        engine.fire = fire
        engine.run_schedule()
        engine.drive_out()
        monitor.check('driveout')
        # the terminated (or stuck) process gets every request once more, a failing late callback and more stepping
        if proc.has_terminated():
            for action in ({'act': 'pause'}, {'act': 'play'}, {'act': 'kill', 'msg': 'late'}, {'act': 'resume'},
                           {'act': 'callback', 'fail': True}, {'act': 'fail', 'msg': 'late-fail'}, {'act': 'play'},
                           {'act': 'kill', 'msg': 'later'}):
                engine.extra_action(action, where='late')
                engine.run_to_quiescence()
                if action['act'] == 'callback':
                    result.counters['probe:late_failing_callback_after_terminal'] += 1
            result.counters['probe:step_on_terminated'] += 1
            task = engine.loop.create_task(proc.step_until_terminated())
            engine.run_to_quiescence()
            monitor.check('step_until_terminated')
            if not task.done():
                result.violate('terminal_left', 'stepping_blocks', 'step_until_terminated() on a terminated process did not return')
            try:
                step_task = engine.loop.create_task(_swallow(proc.step()))
            except Exception:  # noqa: BLE001 - a terminated process may refuse to step in any way it likes
                step_task = None
            engine.run_to_quiescence()
            monitor.check('step')
            del step_task
        if case['program'].get('kind') == 'workchain':
            result.counters['kind:workchain'] += 1
        if any(e[0] == 'callback' and isinstance(e[2], int) and e[4] in TERMINAL for e in engine.world.events):
            result.counters['probe:program_callback_fails_late'] += 1
        common.finish_result(engine, result)
        result.nontrivial = common.nontrivial_by_context(engine) or any(not r.pre_live for r in engine.records)
    finally:
        common.close_engine(engine)
    return result


async def _swallow(coro):
    try:
        await coro
    except BaseException:  # noqa: BLE001 - step() on a terminated process may refuse in any way it likes
        if hasattr(coro, 'close'):
            coro.close()

# -*- coding: utf-8 -*-
"""C17 - launcher tasks do what they say or are rejected.

The real ProcessLauncher is the task subscriber - registered through plumpy's LoopCommunicator on a SimCommunicator, or
called directly - and tasks are sent with plumpy's own message builders and controllers.
Oracle clauses (model = dictionary of checkpoints + the step trace each program denotes):
  create_*      reply is the pid; checkpoint present iff persist; NO step executed, the process stays CREATED
  launch_*      a fresh instance runs to completion; when persist, its checkpoint exists and is the CREATED state
  continue_*    the run that follows is the continuation of exactly the checkpoint of the requested tag (executed steps =
                the model's suffix from that checkpoint, nothing repeated or skipped)
  nowait_*      with nowait the reply is the pid and arrives while the process is still live; otherwise the reply is the
                outputs, or the error of a process that did not finish
  rejected_*    unknown task type, persist / continue without a persister  ->  TaskRejected, and no process is constructed,
                loaded or stepped
  loader_*      with a custom loader whose identifiers the default loader cannot resolve the tasks still work
"""
import copy
import shutil
import tempfile

import kiwipy

from checks import common
from simkit import canon, comm, persist, programs, seams
from simkit.runner import Result

PROPERTY = 'C17'
LEVEL = 'exploration'
RULE = (
    'cases = histories of create / launch / continue / execute (create+continue) / bogus tasks with every persist / nowait / '
    'tag combination, env snapshots of running processes under a tag, launcher restarts (new ProcessLauncher and loop, the '
    'persister survives), x persister (none | in-memory | pickle directory) x loader (default | custom) x path '
    '(LoopCommunicator on the simulated transport | direct call of the launcher coroutine), x delivery delays.  '
    'Non-trivial = the history has a continue of an existing checkpoint or a rejected task; distinct = distinct event-log '
    'digest.'
)
BUDGET = {'quick': (60000, 55), 'thorough': (1_000_000, 600)}
COMPONENTS = {
    'real': ['plumpy.process_comms.ProcessLauncher, create_launch_body / create_continue_body / create_create_body, '
             'RemoteProcessController, RemoteProcessThreadController', 'plumpy.communications.LoopCommunicator / '
             'convert_to_comm / plum_to_kiwi_future', 'plumpy.futures.create_task / unwrap_kiwi_future',
             'plumpy.persistence (InMemoryPersister, PicklePersister, Bundle.unbundle)', 'plumpy.loaders',
             'plumpy.processes.Process'],
    'stub': ['RabbitMQ task queue -> simkit.comm.SimCommunicator.task_send (first subscriber that does not reject; reply '
             'chain as for RPC)', 'event loop -> SimLoop', 'worker restart -> new launcher on a fresh loop'],
}
ASSUMPTIONS = ['task arguments are picklable', 'a rejected task comes back to the sender as TaskRejected']
EXPECTED_COUNTERS = ['probe:no_reply', 'sender:thread_execute', 'probe:termination_hook_fault_fired', 'sender:async', 'sender:thread', 'op:create', 'op:launch', 'op:continue', 'op:execute', 'op:bogus', 'op:snapshot', 'op:restart',
                     'probe:continue_tagged', 'probe:continue_missing', 'probe:rejected_no_persister', 'probe:nowait',
                     'probe:reply_error', 'persister:none', 'persister:memory', 'persister:pickle', 'loader:custom',
                     'via:loopcomm', 'via:direct']
PROGRAM_CFG = {'max_steps': 4, 'p_async': 0.6, 'max_awaits': 1, 'rets': ['value', 'stop', 'unsuccessful', 'raise', 'kill'],
               'effects': ['out', 'status', 'callsoon'], 'p_wait': 0.55, 'kwargs': True, 'raw_kill': True}


def systematic(tier):
    return []


def random_case(rng, tier):
    n_progs = rng.randint(1, 3)
    progs = [programs.gen_process_program(rng, PROGRAM_CFG) for _ in range(n_progs)]
    for prog in progs:
        if rng.random() < 0.2:
            prog['codec'] = True  # the class stores inputs/outputs in a representation of its own
    persister = rng.choice(['none', 'memory', 'memory', 'pickle'])
    ops = []
    made = []  # indices of ops that produce a pid
    held = []  # ops that launched with nowait: their process may still be live (waiting)
    snaps = []  # (op ref, tag) of snapshots taken
    persisted = []  # ops that leave a checkpoint
    n_ops = rng.randint(2, 7 if tier == 'quick' else 10)
    pid_serial = 0
    for _ in range(n_ops):
        roll = rng.random()
        prog_i = rng.randrange(n_progs)
        if roll < 0.2:
            pid_serial += 1
            ops.append(['create', prog_i, rng.random() < 0.7, f'pid{pid_serial}' if rng.random() < 0.7 else None])
            made.append(len(ops) - 1)
            if ops[-1][2]:
                persisted.append(len(ops) - 1)
        elif roll < 0.45:
            pid_serial += 1
            nowait = rng.random() < 0.5
            ops.append(['launch', prog_i, rng.random() < 0.5, nowait, f'pid{pid_serial}' if rng.random() < 0.7 else None])
            made.append(len(ops) - 1)
            if nowait:
                held.append(len(ops) - 1)
            if ops[-1][2]:
                persisted.append(len(ops) - 1)
        elif roll < 0.7:
            if snaps and rng.random() < 0.6:
                ref, tag = rng.choice(snaps)
            elif persisted and rng.random() < 0.7:
                ref, tag = rng.choice(persisted), None
            else:
                ref = rng.choice(made) if made and rng.random() < 0.85 else 'unknown'
                tag = rng.choice([None, None, None, 'mid', 'other', 0, ''])
            ops.append(['continue', ref, tag, rng.random() < 0.4])
        elif roll < 0.78:
            ops.append(['execute', prog_i, rng.random() < 0.4])
        elif roll < 0.82:
            ops.append(['bogus'])
        elif roll < 0.95:
            if held:
                ref, tag = rng.choice(held), rng.choice(['mid', 'mid', 'other', 0, ''])
                ops.append(['snapshot', ref, tag])
                snaps.append((ref, tag))
            elif made:
                ops.append(['snapshot', rng.choice(made), rng.choice(['mid', 'other', 0, ''])])
        else:
            ops.append(['restart'])
    if rng.random() < 0.3 and persister != 'none':
        # scenario: a process launched without waiting is snapshot under a tag while it waits; later (possibly after a
        # worker restart) exactly that checkpoint is continued
        waity = {'kind': 'process', 'inputs': None, 'steps': [
            {'async': rng.random() < 0.5, 'awaits': [], 'effects': [[{'e': 'out', 'k': 'a', 'v': 1}]],
             'ret': {'t': 'wait', 'to': 1, 'msg': 'w', 'data': None}},
            {'async': False, 'awaits': [], 'effects': [[]], 'ret': {'t': 'wait', 'to': 2, 'msg': None, 'data': 1}},
            {'async': False, 'awaits': [], 'effects': [[{'e': 'out', 'k': 'b', 'v': 2}]], 'ret': {'t': 'value', 'v': 'done'}}]}
        progs.append(waity)
        base = len(ops)
        tag = rng.choice(['mid', 'other', 0, ''])  # falsy tags are tags too
        scenario = [['launch', len(progs) - 1, rng.random() < 0.5, True, 'tagged-pid'], ['snapshot', base, tag]]
        if rng.random() < 0.4:
            scenario.append(['restart'])
        scenario.append(['continue', base, tag, rng.random() < 0.3])
        if rng.random() < 0.4:
            scenario.append(['continue', base, tag, False])
        ops.extend(scenario)
    return {'programs': progs, 'persister': persister, 'loader': rng.choice(['default', 'default', 'custom', 'global']),
            'via': rng.choice(['loopcomm', 'loopcomm', 'direct']), 'ops': ops, 'load_context': rng.random() < 0.5,
            'sender': rng.choice(['body', 'async', 'thread']),
            'eager': rng.random() < 0.4,
            'no_loop_argument': rng.random() < 0.4,
            'no_reply': rng.random() < 0.2,  # controllers are told not to wait for an answer: the task is carried out all the same
            'fault': rng.choice([None, None, None, None, ['hook:on_finished', 0], ['hook:on_terminated', 0], ['hook:on_finished:post', 0],
                                 ['hook:on_killed', 0]]),
            'delay': rng.choice([0, 0, 0.5])}


def shrink(case):
    for i in range(len(case['ops'])):
        candidate = copy.deepcopy(case)
        removed = candidate['ops'].pop(i)
        ok = True
        for op in candidate['ops']:
            if op[0] in ('continue', 'snapshot') and isinstance(op[1], int):
                if op[1] == i:
                    ok = False
                elif op[1] > i:
                    op[1] -= 1
        if ok:
            yield candidate
    for i, program in enumerate(case['programs']):
        for smaller in common.shrink_program(program):
            candidate = copy.deepcopy(case)
            candidate['programs'][i] = smaller
            yield candidate
    for key, simple in (('loader', 'default'), ('via', 'loopcomm'), ('delay', 0), ('persister', 'memory'), ('load_context', False),
                        ('sender', 'body'), ('fault', None)):
        if case.get(key) != simple:
            candidate = copy.deepcopy(case)
            candidate[key] = simple
            yield candidate


class Harness:
    def __init__(self, case, result):
        self.case = case
        self.result = result
        self.plumpy = common.plumpy()
        self.world = programs.World()
        self.world.label_by_pid = True
        self.world.record_hooks = False
        self.directory = None
        self.persister = None
        self.loader = None
        self.classes = []
        self.sim_time = 0.0
        self.ticks = 0
        self.new_runtime(first=True)

    def new_runtime(self, first=False):
        plumpy = self.plumpy
        if not first:
            self.sim_time += self.loop.time()
            self.ticks += self.loop.tick
            # the old worker is gone: nothing of it runs any more
        self.loop = seams.new_loop(max_ticks=20000) if first else self._fresh_loop()
        self.loop.eager_loop_thread = bool(self.case.get('eager'))  # who wins the race after call_soon_threadsafe (SimLoop)
        if first:
            fault = self.case.get('fault')
            if fault:
                # one user hook fails once (first time it is reached by any process of the history): the process concerned
                # must end EXCEPTED and a waiting sender must get the error, not an earlier outcome
                self.world.fault = tuple(fault)
            for program in self.case['programs']:
                self.classes.append(programs.build_process_class(program, self.world, plumpy, hooks=bool(fault),
                                                                 record_calls=False))
            if self.case['loader'] == 'custom':
                self.loader = persist.make_custom_loader(plumpy)
            elif self.case['loader'] == 'global':
                # the application configured its loader once, globally (plumpy.set_object_loader), and passes it nowhere: task
                # bodies, launcher and persister all fall back to it
                plumpy.set_object_loader(persist.make_custom_loader(plumpy, strict=True))
            if self.case['persister'] == 'memory':
                # with a custom loader the in-memory checkpoints name their classes by that loader's identifiers, which
                # the default loader cannot resolve: continuing them needs the configured loader
                self.persister = plumpy.InMemoryPersister(loader=self.loader)
            elif self.case['persister'] == 'pickle':
                self.directory = tempfile.mkdtemp(prefix='c17-')
                self.persister = plumpy.PicklePersister(self.directory)
        elif self.case['persister'] == 'pickle':
            self.persister = plumpy.PicklePersister(self.directory)
        self.communicator = comm.SimCommunicator(self.loop)
        # half of the cases also hand the launcher a load context of their own (the loader must still be the one used)
        load_context = plumpy.LoadSaveContext(marker='from-case') if self.case.get('load_context') else None
        # (the loop is optional: without it the launcher and the processes it makes live on the current event loop)
        self.launcher = plumpy.ProcessLauncher(loop=None if self.case.get('no_loop_argument') else self.loop,
                                               persister=self.persister, load_context=load_context,
                                               loader=self.loader)
        self.loop_comm = plumpy.wrap_communicator(self.communicator, self.loop)
        self.loop_comm.add_task_subscriber(self.launcher, identifier='launcher')
        self.controller = plumpy.RemoteProcessController(self.communicator)
        self.thread_controller = plumpy.RemoteProcessThreadController(self.communicator)

    def _fresh_loop(self):
        from simkit.loop import SimLoop
        import asyncio

        old = self.loop
        old.hooks = None
        loop = SimLoop(max_ticks=20000)
        asyncio.set_event_loop(loop)
        seams._state.loop = loop
        self._old_loops = getattr(self, '_old_loops', []) + [old]
        return loop

    def send(self, body):
        """Send a task; returns an object whose final outcome is read with comm.unwrap at quiescence."""
        if self.case['via'] == 'direct':
            async def call():
                return await self.launcher(self.communicator, body)

            return self.loop.create_task(call())
        self.communicator.delivery_queue.append({'delay': self.case.get('delay', 0)})
        return self.communicator.task_send(body)

    def send_via_controller(self, kind, **kwargs):
        """launch / continue through plumpy's controllers (message bodies are built by the library itself)."""
        sender = self.case.get('sender', 'body')
        self.communicator.delivery_queue.append({'delay': self.case.get('delay', 0)})
        if self.case.get('no_reply'):
            kwargs['no_reply'] = True
        if sender == 'async':
            method = getattr(self.controller, f'{kind}_process')
            return self.loop.create_task(method(**kwargs))
        method = getattr(self.thread_controller, f'{kind}_process')
        return method(**kwargs)

    def settle(self):
        self.loop.run_until_quiescent()

    def close(self):
        self.sim_time += self.loop.time()
        self.ticks += self.loop.tick
        for loop in getattr(self, '_old_loops', []):
            loop.close()
        if self.directory:
            shutil.rmtree(self.directory, ignore_errors=True)
        seams.reset_world()


def steps_of(world, proc, start=0):
    return [[e[2], e[3], e[4]] for e in world.events[start:] if e[0] == 'step' and e[1] == programs.label(proc)]


def run(case):
    result = Result()
    seams.begin_case()
    harness = Harness(case, result)
    plumpy = harness.plumpy
    world = harness.world
    try:
        result.counters[f'persister:{case["persister"]}'] += 1
        result.counters[f'via:{case["via"]}'] += 1
        if case['loader'] == 'custom':
            result.counters['loader:custom'] += 1
        if case['loader'] == 'global':
            result.counters['loader:global'] += 1
        pids = {}  # op index -> (pid, program index)
        checkpoints = {}  # (pid, tag) -> (program index, number of steps executed at the checkpoint, state)
        nontrivial = False
        from plumpy import process_comms

        for op_index, op in enumerate(case['ops']):
            name = op[0]
            result.counters[f'op:{name}'] += 1
            world.rec('op', op_index, name)
            mark = len(world.events)
            instances_before = len(world.instances)
            if name == 'restart':
                harness.settle()
                harness.new_runtime()
                continue
            if name == 'snapshot':
                ref = pids.get(op[1])
                live = [p for p in world.instances if ref and p.pid == ref[0] and not p.has_terminated()]
                if harness.persister is None or not live:
                    continue
                proc = live[-1]
                harness.persister.save_checkpoint(proc, op[2])
                checkpoints[(proc.pid, op[2])] = (ref[1], len(proc._trace), proc.state.value)
                world.rec('snapshot', str(proc.pid), op[2], proc.state.value, len(proc._trace))
                continue
            expect_reject = False
            silent = False  # the sender asked for no reply: only the effect of the task is judged
            if name == 'bogus':
                body = {process_comms.TASK_KEY: 'frobnicate', process_comms.TASK_ARGS: {}}
                expect_reject = True
                reply = harness.send(body)
            elif name == 'create':
                _, prog_i, persist_flag, pid = op
                body = process_comms.create_create_body(harness.classes[prog_i], init_kwargs={'pid': pid} if pid else None,
                                                        persist=persist_flag, loader=harness.loader)
                expect_reject = persist_flag and harness.persister is None
                reply = harness.send(body)
            elif name == 'launch':
                _, prog_i, persist_flag, nowait, pid = op
                body = process_comms.create_launch_body(harness.classes[prog_i], init_kwargs={'pid': pid} if pid else None,
                                                        persist=persist_flag, loader=harness.loader, nowait=nowait)
                expect_reject = persist_flag and harness.persister is None
                if case['via'] != 'direct' and case.get('sender', 'body') != 'body':
                    result.counters[f'sender:{case["sender"]}'] += 1
                    silent = bool(case.get('no_reply'))
                    reply = harness.send_via_controller('launch', process_class=harness.classes[prog_i],
                                                        init_kwargs={'pid': pid} if pid else None, persist=persist_flag,
                                                        loader=harness.loader, nowait=nowait)
                else:
                    reply = harness.send(body)
            elif name == 'continue':
                _, ref, tag, nowait = op
                target = pids.get(ref) if ref != 'unknown' else ('no-such-pid', None)
                if target is None:
                    continue
                body = process_comms.create_continue_body(target[0], tag=tag, nowait=nowait)
                expect_reject = harness.persister is None
                if case['via'] != 'direct' and case.get('sender', 'body') != 'body':
                    result.counters[f'sender:{case["sender"]}'] += 1
                    silent = bool(case.get('no_reply'))
                    reply = harness.send_via_controller('continue', pid=target[0], tag=tag, nowait=nowait)
                else:
                    reply = harness.send(body)
            elif name == 'execute':
                _, prog_i, nowait = op
                if case['via'] == 'direct':
                    continue
                harness.communicator.delivery_queue.append({'delay': case.get('delay', 0)})
                harness.communicator.delivery_queue.append({'delay': case.get('delay', 0)})
                if case.get('sender') == 'thread':
                    # the thread controller chains the create and the continue task with done callbacks instead of awaits
                    result.counters['sender:thread_execute'] += 1
                    reply = harness.thread_controller.execute_process(harness.classes[prog_i], loader=harness.loader,
                                                                      nowait=nowait, no_reply=bool(case.get('no_reply')))
                else:
                    reply = harness.loop.create_task(harness.controller.execute_process(
                        harness.classes[prog_i], loader=harness.loader, nowait=nowait, no_reply=bool(case.get('no_reply'))))
                silent = bool(case.get('no_reply'))
                expect_reject = harness.persister is None
            else:
                raise ValueError(name)

            # let the task run; processes that wait are resumed by the environment (their continuation is part of the run)
            reply_state = {}
            needs_completion = not (name in ('launch', 'continue', 'execute') and op[-1 if name != 'launch' else 3] is True)
            for _ in range(50):
                harness.settle()
                if 'first' not in reply_state:
                    outcome = comm.unwrap(reply)
                    if outcome[0] != 'pending':
                        reply_state['first'] = outcome
                        reply_state['live'] = [p.state.value for p in world.instances[instances_before:]]
                # only the processes this very task constructed or loaded are driven on (others stay as they are)
                waiting = [p for p in world.instances[instances_before:] if not p.has_terminated()
                           and p.state.value == 'waiting' and p.loop is harness.loop]
                waiting = [p for p in waiting if _is_running(p, world, mark)] if needs_completion else []
                if not waiting:
                    break
                for proc in waiting:
                    programs.apply_trace_resume(proc)
            outcome = comm.unwrap(reply)
            new_instances = world.instances[instances_before:]
            new_labels = {programs.label(p) for p in new_instances}
            new_steps = [e for e in world.events[mark:] if e[0] == 'step' and e[1] in new_labels]

            if expect_reject:
                nontrivial = True
                if name != 'bogus':
                    result.counters['probe:rejected_no_persister'] += 1
                if silent and name != 'execute':  # (execute_process always waits for its create task, which is what is rejected)
                    result.counters['probe:no_reply_rejected'] += 1
                    if outcome != ('value', None):
                        result.violate('no_reply', name, f'{name} sent with no_reply came back with {outcome!r}')
                elif outcome[0] != 'exception' or outcome[1] != 'TaskRejected':
                    result.violate('rejected_reply', name, f'{name} task that cannot be honoured was answered with {outcome!r} '
                                                           f'instead of TaskRejected')
                if new_instances or new_steps:
                    result.violate('rejected_but_executed', name, f'{name} task was rejected (or should have been) but '
                                                                  f'{len(new_instances)} process(es) were constructed/loaded and '
                                                                  f'{len(new_steps)} step(s) ran')
                continue

            if name == 'create':
                _, prog_i, persist_flag, pid = op
                if outcome[0] != 'value':
                    result.violate('create_reply', 'error', f'create task answered with {outcome!r}')
                    continue
                got_pid = outcome[1]
                pids[op_index] = (got_pid, prog_i)
                if pid is not None and got_pid != pid:
                    result.violate('create_reply', 'pid', f'create task returned pid {got_pid!r}, requested {pid!r}')
                if new_steps:
                    result.violate('create_ran', 'steps', f'create task executed steps {[s[2] for s in new_steps]}')
                if len(new_instances) != 1 or new_instances[0].state.value != 'created':
                    result.violate('create_ran', 'state', f'create task left {[(type(p).__name__, p.state.value) for p in new_instances]}')
                present = _has_checkpoint(harness.persister, got_pid, None)
                if present != bool(persist_flag):
                    result.violate('create_persist', f'persist={persist_flag}', f'checkpoint present={present} after create with '
                                                                                f'persist={persist_flag}')
                if persist_flag:
                    checkpoints[(got_pid, None)] = (prog_i, 0, 'created')
            elif name == 'launch':
                _, prog_i, persist_flag, nowait, pid = op
                model = programs.model_run(case['programs'][prog_i], 'trace')
                if len(new_instances) != 1:
                    result.violate('launch_instances', str(len(new_instances)), f'launch constructed {len(new_instances)} processes')
                    continue
                proc = new_instances[0]
                pids[op_index] = (proc.pid, prog_i)
                _check_reply(result, 'launch', nowait, outcome, proc, model, reply_state, silent)
                if persist_flag:
                    state = _checkpoint_state(harness.persister, proc.pid, None, harness.loader)
                    if state != 'created':
                        result.violate('launch_persist', str(state), f'launch with persist: checkpoint state is {state!r}, expected '
                                                                     f'the CREATED state saved before the first step')
                    checkpoints[(proc.pid, None)] = (prog_i, 0, 'created')
                elif _has_checkpoint(harness.persister, proc.pid, None) and (proc.pid, None) not in checkpoints:
                    result.violate('launch_persist', 'unasked', 'launch without persist left a checkpoint')
                got = steps_of(world, proc, mark)
                if got != model['trace'] and proc.has_terminated():
                    result.violate('launch_trace', 'steps', f'launched process executed {[g[0] for g in got]}, its program '
                                                            f'denotes {[w[0] for w in model["trace"]]}')
            elif name in ('continue', 'execute'):
                if name == 'execute':
                    _, prog_i, nowait = op
                    if len(new_instances) < 1:
                        result.violate('continue_instances', 'execute', f'execute_process created no process: {outcome!r}')
                        continue
                    pid = new_instances[0].pid
                    tag, start_at = None, 0
                    pids[op_index] = (pid, prog_i)
                    checkpoints[(pid, None)] = (prog_i, 0, 'created')
                    loaded = new_instances[1:]
                else:
                    _, ref, tag, nowait = op
                    pid = pids.get(ref, ('no-such-pid', None))[0] if ref != 'unknown' else 'no-such-pid'
                    loaded = new_instances
                    known = checkpoints.get((pid, tag))
                    if known is None:
                        result.counters['probe:continue_missing'] += 1
                        nontrivial = True
                        if outcome[0] == 'exception' and outcome[1] == 'TaskRejected' and not silent:
                            # (only an unknown task type and a missing persister make a task one "that cannot be honoured":
                            # a rejected task is offered to the next launcher, a failed one is answered with its error)
                            result.violate('continue_missing', 'rejected', f'continue of a checkpoint that does not exist '
                                                                           f'({pid!r}, {tag!r}) was rejected instead of failing: '
                                                                           f'{outcome!r}')
                        if outcome[0] != 'exception' and not silent:
                            result.violate('continue_missing', 'reply', f'continue of a checkpoint that does not exist '
                                                                        f'({pid!r}, {tag!r}) was answered with {outcome!r}')
                        if loaded or new_steps:
                            result.violate('continue_missing', 'ran', f'continue of a missing checkpoint ran '
                                                                      f'{[s[2] for s in new_steps]}')
                        continue
                    prog_i, start_at, _ = known
                    if tag is not None:
                        result.counters['probe:continue_tagged'] += 1
                nontrivial = True
                model = programs.model_run(case['programs'][prog_i], 'trace')
                if len(loaded) != 1:
                    result.violate('continue_instances', str(len(loaded)), f'continue loaded {len(loaded)} processes ({outcome!r})')
                    continue
                proc = loaded[0]
                if proc.pid != pid:
                    result.violate('continue_wrong_checkpoint', 'pid', f'continued process has pid {proc.pid!r}, asked for {pid!r}')
                _check_reply(result, 'continue', nowait, outcome, proc, model, reply_state, silent)
                got = steps_of(world, proc, mark)
                want = model['trace'][start_at:]
                if proc.has_terminated() and got != want:
                    kind = 'repeated' if len(got) > len(want) else 'skipped_or_other'
                    result.violate('continue_wrong_checkpoint', kind,
                                   f'continue of ({pid!r}, {tag!r}) saved after {start_at} step(s) executed '
                                   f'{[g[0] for g in got]}, the continuation of that checkpoint is {[w[0] for w in want]}')
                if proc.has_terminated() and canon.canon(proc._trace) != canon.canon(model['trace']):
                    result.violate('continue_wrong_checkpoint', 'persisted_trace',
                                   f'persisted trace of the continued process {proc._trace!r} != {model["trace"]!r}')
        unsafe = [v for loop in getattr(harness, '_old_loops', []) + [harness.loop] for v in loop.thread_violations]
        if unsafe:
            result.violate('thread_unsafe_scheduling', unsafe[0].split('(')[0],
                           f'a task subscriber (run in the communicator\'s thread in production) scheduled work on the loop '
                           f'through a non-thread-safe call: {unsafe[:3]}')
        result.events = list(world.events)
        result.nontrivial = nontrivial
        if world.fault_fired is not None:
            result.counters['probe:termination_hook_fault_fired'] += 1
        result.counters['custom_loader_loads'] += getattr(type(harness.loader), 'loads', 0) if harness.loader else 0
        # leave nothing half-run behind
        for proc in world.instances:
            if not proc.has_terminated() and proc.loop is harness.loop:
                try:
                    proc.kill('end of case')
                except Exception:  # noqa: BLE001
                    pass
        harness.settle()
    finally:
        harness.close()
        result.sim_time = harness.sim_time
        result.ticks = harness.ticks
        seams.end_case()
    return result


def _is_running(proc, world, mark):
    """A process some task of this runtime is stepping (created-only processes are not)."""
    return any(e[0] == 'step' and e[1] == programs.label(proc) for e in world.events) or proc.state.value != 'created'


def _has_checkpoint(persister, pid, tag):
    if persister is None:
        return False
    try:
        persister.load_checkpoint(pid, tag)
        return True
    except Exception:  # noqa: BLE001
        return False


def _checkpoint_state(persister, pid, tag, loader=None):
    """State of the process a stored checkpoint describes, read through the public API only (load + unbundle)."""
    plumpy = common.plumpy()
    try:
        bundle = persister.load_checkpoint(pid, tag)
    except Exception as exc:  # noqa: BLE001
        return f'missing:{type(exc).__name__}'
    world = None
    try:
        loaded = bundle.unbundle(plumpy.LoadSaveContext(loop=seams.current_loop(), loader=loader))
        world = getattr(type(loaded), '_world', None)
        return loaded.state.value
    except Exception as exc:  # noqa: BLE001
        return f'unloadable:{type(exc).__name__}'
    finally:
        if world is not None and world.instances and world.instances[-1] is locals().get('loaded'):
            world.instances.pop()  # the throw-away instance is not part of the history
            if world.events and world.events[-1][0] == 'init':
                world.events.pop()


def _check_reply(result, what, nowait, outcome, proc, model, reply_state, silent=False):
    if silent:
        result.counters['probe:no_reply'] += 1
        if outcome != ('value', None):
            result.violate('no_reply', what, f'{what} sent with no_reply came back with {outcome!r}')
        return
    if nowait:
        result.counters['probe:nowait'] += 1
        if outcome != ('value', proc.pid):
            result.violate('nowait_reply', what, f'{what} with nowait answered {outcome!r}, expected the pid {proc.pid!r}')
        return
    if not proc.has_terminated():
        result.violate('wait_reply', f'{what}:live', f'{what} without nowait answered {outcome!r} while the process is still '
                                                     f'{proc.state.value}')
        return
    state = proc.state.value
    if state == 'finished':
        want = ('value', programs.freeze(proc.outputs))
        got = (outcome[0], programs.freeze(outcome[1])) if outcome[0] == 'value' else outcome
        if got != want:
            result.violate('wait_reply', f'{what}:outputs', f'{what} answered {outcome!r}, the process finished with outputs '
                                                            f'{proc.outputs!r}')
    else:
        result.counters['probe:reply_error'] += 1
        if outcome[0] != 'exception':
            result.violate('wait_reply', f'{what}:{state}', f'{what} answered {outcome!r} although the process ended {state}')
        elif outcome[1] == 'TaskRejected':
            result.violate('wait_reply', f'{what}:{state}:rejected', f'{what} of a process that ended {state} was answered with a '
                                                                     f'rejection ({outcome!r}) instead of its error')

# -*- coding: utf-8 -*-
"""C07 - save, load, save again yields the same bundle and the same observable process.

At every checkpoint point (right after construction, inside every ENTERED_STATE callback - where a checkpointing
deployment saves -, at every paused point, after termination) of a simulated run:
    b1 = medium(Bundle(p));  q = b1.unbundle();  b2 = Bundle(q)
Oracle clauses:
  load_failed          a bundle that could be produced cannot be loaded
  bundle_differs       canon(b1) != canon(b2)  (up to the traceback text of an excepted process)
  observable_differs   pid, state, raw/parsed inputs, outputs, context, status, paused, creation time, future and (if
                       terminated) the outcome of q differ from p's
A point at which Bundle(p) itself raises is "cannot be saved": skipped and counted in the evidence.
"""
import copy

from checks import common
from simkit import canon, persist, programs, seams, wcprograms
from simkit.runner import Result

PROPERTY = 'C07'
LEVEL = 'exploration'
RULE = (
    'cases = generated process programs (inputs, nested outputs, wait data, continuation args/kwargs, unsuccessful / '
    'excepted / killed outcomes, persisted listener) and workchain programs (outlines with branches and loops, context '
    'values, awaitables) x schedule of pause/play/kill requests x medium (deepcopy | pickle | YAML) x loader (default | '
    'custom, given at save and load); every state entry, every paused point, creation and termination of the run is a '
    'checkpoint point.  evaluations = runs; counters report round trips per state and medium.  Non-trivial = the run '
    'produced at least one round trip in a non-CREATED state; distinct = distinct event-log digest.'
)
BUDGET = {'quick': (25000, 55), 'thorough': (1_000_000, 600)}
COMPONENTS = {
    'real': common.COMPONENTS['real'] + ['plumpy.persistence (Bundle, Savable, auto_persist, SavableFuture, LoadSaveContext)',
                                          'plumpy.workchains steppers', 'plumpy.mixins.ContextMixin', 'plumpy.loaders',
                                          'copy.deepcopy', 'pickle', 'PyYAML (yaml.dump / yaml.load with plumpy tags)'],
    'stub': common.COMPONENTS['stub'],
}
ASSUMPTIONS = ['values inside programs are picklable / YAML-able', 'tblib is not installed: traceback text is not restored '
               '(the property excludes it)']
EXPECTED_COUNTERS = ['roundtrip:created', 'roundtrip:running', 'roundtrip:waiting', 'roundtrip:finished', 'roundtrip:excepted',
                     'roundtrip:killed', 'roundtrip:paused_point', 'medium:deepcopy', 'medium:pickle', 'medium:yaml',
                     'loader:custom', 'kind:workchain', 'kind:process', 'with_listener']
PROGRAM_CFG = {
    'max_steps': 4,
    'rets': ['value', 'stop', 'unsuccessful', 'kill', 'raise'],
    'effects': ['out', 'out', 'status'],
    'kwargs': True,
    'p_async': 0.4,
}
INPUTS = [None, {}, {'a': 1}, {'a': 'x', 'ns': {'x': [1, 2], 'y': {'deep': True}}}, {'n': None, 'f': 2.5},
          {'t': {'__tuple__': [1, 'two', [3]]}, 's': {'__set__': [1, 2, 3]}}, {'u': {'__uuid__': 12345}, 'ns': {'t': {'__tuple__': []}}},
          {'empty': {}, 'zero': 0, 'false': False, 'text': ''}]


def materialise(value):
    """JSON cannot carry tuples, sets or UUIDs: cases mark them and they are built here."""
    import uuid

    if isinstance(value, dict):
        if set(value) == {'__tuple__'}:
            return tuple(materialise(v) for v in value['__tuple__'])
        if set(value) == {'__set__'}:
            return set(value['__set__'])
        if set(value) == {'__uuid__'}:
            return uuid.UUID(int=value['__uuid__'])
        return {k: materialise(v) for k, v in value.items()}
    if isinstance(value, list):
        return [materialise(v) for v in value]
    return value


def systematic(tier):
    return []


def random_case(rng, tier):
    if rng.random() < 0.55:
        program = programs.gen_process_program(rng, PROGRAM_CFG)
        program['inputs'] = copy.deepcopy(rng.choice(INPUTS))
        if rng.random() < 0.25:
            program['codec'] = True  # the class overrides encode_input_args / decode_input_args
        if rng.random() < 0.15:
            # a wait without continuation (the process can only be killed afterwards): still a state that can be saved
            waits = [s for s in program['steps'] if s['ret']['t'] == 'wait']
            if waits:
                rng.choice(waits)['ret']['to'] = None
    else:
        program = wcprograms.gen_outline(rng)
        program['inputs'] = copy.deepcopy(rng.choice(INPUTS))
        if rng.random() < 0.25 and program['steps']:
            # hand one bare future to the context: the waiting state "cannot be saved"
            first = next(iter(program['steps']))
            program['steps'][first]['effects'].append({'e': 'toctx', 'key': 'fut', 'ref': {'fut': 0}})
    ticks, notify, _ = common.dry_run(program, {'listener': False})
    schedule = []
    for _ in range(rng.randint(0, 3)):
        kind = rng.choice(['pause', 'pause', 'play', 'kill'] if rng.random() < 0.3 else ['pause', 'pause', 'play'])
        action = {'act': kind, 'at': rng.randint(0, ticks + 1)}
        if kind in ('pause', 'kill'):
            action['msg'] = rng.choice([None, 'msg'])
        schedule.append(action)
    return {'program': program, 'schedule': schedule, 'medium': rng.choice(persist.MEDIA),
            'loader': rng.choice(['default', 'default', 'custom']), 'with_listener': rng.random() < 0.3,
            'save_while_entering': rng.random() < 0.25, 'opts': {'listener': False, 'cleanups': 0}}


def shrink(case):
    for candidate in common.shrink_control(case) if case['program'].get('kind') != 'workchain' else _shrink_wc(case):
        yield candidate
    for key, simple in (('medium', 'deepcopy'), ('loader', 'default'), ('with_listener', False)):
        if case.get(key) != simple:
            candidate = copy.deepcopy(case)
            candidate[key] = simple
            yield candidate
    if case['program'].get('inputs'):
        candidate = copy.deepcopy(case)
        candidate['program']['inputs'] = None
        yield candidate


def _shrink_wc(case):
    for i in range(len(case['schedule'])):
        candidate = copy.deepcopy(case)
        del candidate['schedule'][i]
        yield candidate
    for name, step in case['program']['steps'].items():
        for ei in range(len(step.get('effects') or [])):
            candidate = copy.deepcopy(case)
            del candidate['program']['steps'][name]['effects'][ei]
            yield candidate
    outline = case['program']['outline']
    for i in range(len(outline)):
        if len(outline) > 1:
            candidate = copy.deepcopy(case)
            del candidate['program']['outline'][i]
            yield candidate


def run(case):
    result = Result()
    plumpy = common.plumpy()
    case = copy.deepcopy(case)
    if case['program'].get('inputs') is not None:
        case['program']['inputs'] = materialise(case['program']['inputs'])
    engine = common.new_engine(case, record_hooks=False)
    state = {'paused_checked': False}
    loader_box = {}

    def roundtrip(proc, point):
        medium = case.get('medium', 'deepcopy')
        loader = loader_box.get('loader')
        try:
            first = persist.save(proc, medium, loader)
        except Exception as exc:  # noqa: BLE001 - "cannot be saved" point
            result.counters['cannot_be_saved'] += 1
            result.counters[f'cannot_be_saved:{proc.state.value}:{type(exc).__name__}'] += 1
            return
        label = 'paused_point' if point == 'paused' else proc.state.value
        result.counters[f'roundtrip:{label}'] += 1
        result.counters[f'medium:{medium}'] += 1
        try:
            loaded = persist.load(first, engine.loop, loader)
        except Exception as exc:  # noqa: BLE001
            result.violate('load_failed', f'{proc.state.value}:{type(exc).__name__}',
                           f'at {point} in state {proc.state.value} through {medium}: load raised {exc!r}')
            return
        try:
            second = plumpy.Bundle(loaded, plumpy.LoadSaveContext(loader=loader) if loader is not None else None)
        except Exception as exc:  # noqa: BLE001
            result.violate('bundle_differs', f'{proc.state.value}:resave:{type(exc).__name__}',
                           f'at {point}: saving the loaded process raised {exc!r}')
            return
        a, b = canon.canon(first), canon.canon(second)
        diff = canon.first_diff(a, b)
        if diff is not None:
            path, x, y = diff
            result.violate('bundle_differs', f'{proc.state.value}:{_generic(path)}',
                           f'at {point} in state {proc.state.value} through {medium}: bundles differ at {path}: '
                           f'{x!r} vs {y!r}')
        mine, theirs = canon.observable(proc), canon.observable(loaded)
        diff = canon.first_diff(mine, theirs)
        if diff is not None:
            path, x, y = diff
            result.violate('observable_differs', f'{proc.state.value}:{_generic(path)}',
                           f'at {point} in state {proc.state.value} through {medium}: loaded process differs at {path}: '
                           f'original {x!r} loaded {y!r}')
        engine.world.rec('roundtrip', point, proc.state.value)

    try:
        if not engine.start():
            raise RuntimeError(f'construction failed: {engine.construct_error!r}')
        proc = engine.proc
        if case.get('loader') == 'custom':
            loader_box['loader'] = persist.make_custom_loader(plumpy)
            result.counters['loader:custom'] += 1
        if case.get('with_listener'):
            from simkit import listeners
            proc.add_process_listener(listeners.PlainListener(tag='persisted', n=3))
            result.counters['with_listener'] += 1
        result.counters[f'kind:{case["program"].get("kind", "process")}'] += 1
        roundtrip(proc, 'created')
        engine.entered_hook = lambda p, frm, to: roundtrip(p, f'entered:{to}')
        if case.get('save_while_entering'):
            # a checkpoint written while a transition is in flight (ENTERING_STATE: the old state has been left, the new one is
            # not in place yet): it, too, must come back as it was saved
            hook = plumpy.base.state_machine.StateEventHook.ENTERING_STATE
            proc.add_state_event_callback(hook, lambda p, _hook, state: roundtrip(p, f'entering:{state.LABEL.value}')
                                          if p is proc else None)
        original_after = engine.after_handle

        def after_handle(loop):
            original_after(loop)
            if proc.paused and not proc.has_terminated():
                if not state['paused_checked']:
                    state['paused_checked'] = True
                    roundtrip(proc, 'paused')
            else:
                state['paused_checked'] = False

        engine.after_handle = after_handle
        engine.run_schedule()
        engine.drive_out()
        if proc.has_terminated():
            roundtrip(proc, 'terminated')
        common.finish_result(engine, result)
        result.nontrivial = any(k.startswith('roundtrip:') and not k.endswith(':created') and v
                                for k, v in result.counters.items())
    finally:
        common.close_engine(engine)
    return result


def _generic(path):
    """Signature-friendly form of a bundle path (indices dropped)."""
    import re
    return re.sub(r'\[\d+\]', '[]', path)[:80]

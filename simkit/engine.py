# -*- coding: utf-8 -*-
"""Control engine: runs ONE generated process on a SimLoop under an environment schedule.

case := {program, schedule: [action...], opts: {...}}
action := {at: n | on: [event, k], act: kind, ...}
   at  : fire before the handle with index n (n handles have run); actions with the same ``at``
         fire in list order; actions whose position was not reached fire one by one at quiescence
   on  : fire from inside the k-th notification of listener event ``event`` (during a transition)
   act : pause(msg) | play | kill(msg) | resume | fail(msg) | cancel | callback(fail)

The engine only *observes*: everything it learns comes through plumpy's public API (state,
paused, future(), accessors, listener notifications, ENTERED_STATE callbacks, return values of the
calls it makes) plus the probes compiled into the generated program.  Oracles live in checks/.
"""
import asyncio

from . import programs, seams
from .loop import SimError

LISTENER_EVENTS = ('running', 'waiting', 'paused', 'played', 'finished', 'excepted', 'killed', 'output')


class StuckError(SimError):
    pass


def result_class(result):
    return programs._result_class(result)


class ActionRecord:
    __slots__ = ('index', 'action', 'tick', 'pre_state', 'pre_live', 'pre_paused', 'result', 'raised', 'post_state',
                 'post_paused', 'where', 'seq', 'wait_no', 'resume_no', 'context')

    def __init__(self, index, action):
        self.index = index
        self.action = action
        self.raised = None
        self.result = None
        self.wait_no = None
        self.resume_no = None


class Engine:
    def __init__(self, case, plumpy, record_hooks=True, fault=None, max_ticks=5000):
        self.case = case
        self.plumpy = plumpy
        self.opts = case.get('opts') or {}
        self.world = programs.World()
        self.world.engine = self
        self.world.record_hooks = record_hooks
        self.world.fault = tuple(fault) if fault else None
        self.loop = seams.new_loop(max_ticks=max_ticks)
        self.loop.hooks = self
        # which thread wins the race after call_soon_threadsafe from the (simulated) communicator thread: see SimLoop
        self.loop.eager_loop_thread = bool((case.get('opts') or {}).get('eager'))
        self.schedule = list(case.get('schedule') or [])
        self.records = []
        self.pending_at = sorted(
            (i for i, a in enumerate(self.schedule) if 'at' in a), key=lambda i: (self.schedule[i]['at'], i)
        )
        self.pending_on = {}
        self.pending_q = {}
        self.pending_t = []
        for i, a in enumerate(self.schedule):
            if 'on' in a:
                self.pending_on.setdefault((a['on'][0], a['on'][1]), []).append(i)
            elif 'q' in a:
                self.pending_q.setdefault(a['q'], []).append(i)
            elif 't' in a:
                self.pending_t.append(i)
        self.communicator = None
        self.controller = None
        self.thread_controller = None
        self.quiescences = 0
        self.notify_counts = {}
        self.diverted = False
        self.stepper_cancelled = 0
        self.given_up = 0
        self.transitions = []  # (from, to) from ENTERED_STATE callbacks
        self.samples = []  # (tick, state, paused, terminated, future_done) on change
        self.last_sample = None
        self.waits_entered = 0
        self.resumes_in_wait = 0
        self.cleanups_run = {}
        self.construct_error = None
        self.proc = None
        self.task = None
        self.invariant_failures = []
        self.contexts = {}  # coverage: (context, act kind) -> count
        self.completed = []  # ids of bare futures completed by the environment
        self.entered_hook = None  # optional callable(proc, from, to) run inside the ENTERED_STATE callback
        self.world.awaitable_errors = {}

    # -- construction ------------------------------------------------------------------------
    def start(self):
        plumpy = self.plumpy
        if self.case['program'].get('kind') == 'workchain':
            from . import wcprograms

            self.cls = wcprograms.build_workchain_class(self.case['program'], self.world, plumpy,
                                                        hooks=self.opts.get('hooks', False))
        else:
            self.cls = programs.build_process_class(self.case['program'], self.world, plumpy,
                                                    hooks=self.opts.get('hooks', True))
        if self.opts.get('comm'):
            from . import comm

            self.communicator = comm.SimCommunicator(self.loop)
            for kind in self.opts.get('subscribe_timeouts') or []:
                self.communicator.subscribe_timeouts.add(kind)
            for kind in self.opts.get('unsubscribe_timeouts') or []:
                self.communicator.unsubscribe_timeouts.add(kind)
            if self.opts.get('broadcast_fault'):
                # the k-th state_changed announcement fails with one of the errors the process tolerates
                index, name = self.opts['broadcast_fault']
                self.communicator.broadcast_fault = (index, _tolerated_error(name))
            self.controller = plumpy.RemoteProcessController(self.communicator)
            self.thread_controller = plumpy.RemoteProcessThreadController(self.communicator)
        process_communicator = self.communicator
        if self.communicator is not None and self.opts.get('wrap'):
            # the process talks through plumpy's own LoopCommunicator wrapper (subscriber callbacks are scheduled on the loop)
            process_communicator = plumpy.wrap_communicator(self.communicator, self.loop)
        try:
            if self.opts.get('via_bundle'):
                self.proc = self._restored_process(process_communicator)
            else:
                self.proc = self.cls(inputs=self.case['program'].get('inputs'), pid=self._pid(), loop=self.loop,
                                     communicator=process_communicator)
        except Exception as exc:  # noqa: BLE001 - construction faults are judged by C03
            self.construct_error = exc
            return False
        self.attach(self.proc, 'p')
        if self.opts.get('divert'):
            self.world.site_hook = self._divert
        self.task = self.loop.create_task(self.proc.step_until_terminated())
        for index in self.pending_t:
            self.loop.call_at(self.schedule[index]['t'], self._fire_timed, index)
        return True

    def _restored_process(self, process_communicator):
        """The process under control is one that was recreated from a checkpoint (as a launcher's continue task does):
        the original - built without communicator in a loop of its own, run to its first rest if the option says so - is
        saved through the medium and abandoned; the copy is loaded with this engine's loop and communicator."""
        import asyncio

        from . import persist
        from .loop import SimLoop

        spec = self.opts['via_bundle']
        # the original lives in a loop of its own, which is 'the' loop while it runs; the engine's loop is the current one
        # again before the checkpoint is loaded
        scratch = SimLoop(max_ticks=5000)
        asyncio.set_event_loop(scratch)
        try:
            bundle = self._checkpoint_of_original(scratch, spec, persist)
        finally:
            asyncio.set_event_loop(self.loop)
            scratch.hooks = None
            scratch.close()
        context = self.plumpy.LoadSaveContext(loop=self.loop, communicator=process_communicator) \
            if process_communicator is not None else self.plumpy.LoadSaveContext(loop=self.loop)
        return bundle.unbundle(context)

    def _checkpoint_of_original(self, scratch, spec, persist):
        original = self.cls(inputs=self.case['program'].get('inputs'), pid=self._pid(), loop=scratch)
        original._sim_label = 'p'
        if spec.get('after') == 'terminated':
            # the checkpoint of a process that is over (somebody loads it to look at it, or continues it by mistake)
            task = scratch.create_task(original.step_until_terminated())
            with scratch.running():
                while scratch.step_once():
                    pass
                if not original.has_terminated():
                    original.kill('terminated before the checkpoint was taken')
                    while scratch.step_once():
                        pass
            self.world.events.clear()
        elif spec.get('after') == 'rest':
            task = scratch.create_task(original.step_until_terminated())
            with scratch.running():
                while scratch.step_once():
                    pass
            self.prior_ticks = scratch.tick
            if original.has_terminated() or task.done():
                # nothing left to control: checkpoint a fresh instance right after construction instead
                self.world.events.clear()
                self.world.rec('original_terminated', original.state.value)
                original = self.cls(inputs=self.case['program'].get('inputs'), pid=self._pid(), loop=scratch)
                original._sim_label = 'p'
        bundle = persist.save(original, spec.get('medium', 'deepcopy'))
        self.world.rec('restored_from', original.state.value)
        return bundle

    def _pid(self):
        """The process id of the case: a string, an integer, a UUID ({'__uuid__': n} in the JSON case) or None (plumpy's own)."""
        pid = self.opts.get('pid')
        if isinstance(pid, dict) and '__uuid__' in pid:
            import uuid

            return uuid.UUID(int=pid['__uuid__'])
        return pid

    def _divert(self, proc, site, count):
        """A lifecycle hook that refuses the state being entered and names another one instead (StateEntryFailed, the
        mechanism plumpy's own on_finish uses): whatever state it names, the process may only move along the graph."""
        spec = self.opts['divert']
        if proc is not self.proc or site != spec['site'] or count != spec['count'] or self.diverted:
            return
        self.diverted = True
        plumpy = self.plumpy
        states = plumpy.ProcessState
        target = spec['to']
        if target == 'finished':
            state = proc.create_state(states.FINISHED, 'diverted', True)
        elif target == 'killed':
            state = proc.create_state(states.KILLED, plumpy.process_comms.MessageBuilder.kill('diverted'))
        elif target == 'excepted':
            state = proc.create_state(states.EXCEPTED, programs.ProgramError('diverted'))
        elif target == 'waiting':
            state = proc.create_state(states.WAITING, None, 'diverted', None)
        elif target == 'running':
            state = proc.create_state(states.RUNNING, proc.run)
        else:
            state = proc.create_state(states.CREATED, proc.run)
        self.world.rec('divert', site, count, target, proc.state.value)
        raise plumpy.base.state_machine.StateEntryFailed(state)

    def _fire_timed(self, index):
        self.fire(index, 'timed')

    def attach(self, proc, label):
        plumpy = self.plumpy
        proc._sim_label = label
        self.world.rec('attach', label, proc.state.value)
        if self.opts.get('listener', True):
            self.listener = make_listener(plumpy, self)
            proc.add_process_listener(self.listener)
            if self.opts.get('register_twice'):
                proc.add_process_listener(self.listener)  # registering the same listener again changes nothing
            if self.opts.get('oneshot') or self.opts.get('second'):
                self.second_listener = make_listener(plumpy, _SecondListener(self))
                proc.add_process_listener(self.second_listener)
        proc.add_state_event_callback(plumpy.base.state_machine.StateEventHook.ENTERED_STATE, self._entered)
        for ident in range(self.opts.get('cleanups', 2)):
            self.cleanups_run[ident] = 0
            proc.add_cleanup(lambda ident=ident: self._cleanup(ident))
        self.sample()

    def _cleanup(self, ident):
        self.cleanups_run[ident] += 1
        self.world.rec('cleanup', ident)
        if self.opts.get('cleanup_registers') and ident == 1 and 'nested' not in self.cleanups_run:
            # a cleanup that registers a further cleanup while the process is closing: accepted, hence run (once) as well
            self.cleanups_run['nested'] = 0
            self.proc.add_cleanup(lambda: self._cleanup('nested'))
        if self.opts.get('cleanup_raises') and ident == 0:
            # a registered cleanup that fails: logged by the process, the other cleanups still run, nothing else changes
            raise RuntimeError('cleanup 0 failed')

    def _entered(self, proc, hook, from_state):
        frm = from_state.LABEL.value if from_state is not None else None
        to = proc.state.value
        self.transitions.append((frm, to))
        self.world.rec('enter', programs.label(proc), frm, to)
        if to == 'waiting':
            self.waits_entered += 1
            self.resumes_in_wait = 0
        if self.entered_hook is not None:
            self.entered_hook(proc, frm, to)

    # -- loop hooks --------------------------------------------------------------------------
    def before_handle(self, loop):
        if loop.depth != 0:
            return
        while self.pending_at and self.schedule[self.pending_at[0]]['at'] <= loop.tick:
            self.fire(self.pending_at.pop(0), 'between')

    def after_handle(self, loop):
        self.sample()

    def sample(self):
        proc = self.proc
        if proc is None:
            return
        snap = (proc.state.value, proc.paused, proc.has_terminated(), proc.future().done())
        if snap != self.last_sample:
            self.last_sample = snap
            self.samples.append((self.loop.tick,) + snap)
            self.world.rec('sample', *snap)

    def notified(self, event, proc, args):
        count = self.notify_counts.get(event, 0)
        self.notify_counts[event] = count + 1
        self.world.rec('notify', programs.label(proc), event, programs.freeze(args))
        for index in self.pending_on.pop((event, count), []):
            self.fire(index, 'listener')
        if self.opts.get('listener_closes') and event in ('finished', 'excepted', 'killed') and proc is self.proc:
            # a listener that releases the process's resources as soon as it is told about the end: closing twice is harmless
            proc.close()
            self.world.rec('listener_closed_process', event)
        if self.opts.get('oneshot') and event in ('finished', 'excepted', 'killed'):
            # a one-shot listener: removes itself from inside the terminal notification
            proc.remove_process_listener(self.listener)
            self.world.rec('listener_removed_itself', event)
        self.world.site(proc, f'listener:{event}')

    # -- actions -----------------------------------------------------------------------------
    def control_context(self):
        """Abstract control context, used ONLY for the coverage table (reads private attributes)."""
        proc = self.proc
        if proc.has_terminated():
            return 'terminated'
        parts = [proc.state.value]
        if getattr(proc, '_stepping', False):
            parts.append('stepping')
        if proc.paused:
            parts.append('paused')
        if getattr(proc, '_pausing', None) is not None:
            parts.append('pausing')
        if getattr(proc, '_killing', None) is not None:
            parts.append('killing')
        return '+'.join(parts)

    def fire(self, index, where):
        action = self.schedule[index]
        proc = self.proc
        rec = ActionRecord(index, action)
        rec.where = where
        rec.tick = self.loop.tick
        rec.pre_state = proc.state.value
        rec.pre_live = not proc.has_terminated()
        rec.pre_paused = proc.paused
        rec.seq = len(self.world.events)
        rec.context = self.control_context()
        kind = action['act']
        key = (rec.context, kind)
        self.contexts[key] = self.contexts.get(key, 0) + 1
        self.world.rec('act', index, kind, where, rec.pre_state, rec.pre_paused)
        try:
            if kind == 'pause':
                rec.result = proc.pause(action.get('msg'))
            elif kind == 'play':
                rec.result = proc.play()
            elif kind == 'kill':
                rec.result = proc.kill(action.get('msg'))
            elif kind == 'resume':
                rec.wait_no = self.waits_entered - 1
                rec.resume_no = self.resumes_in_wait
                if rec.pre_state == 'waiting':
                    self.resumes_in_wait += 1
                rec.result = proc.resume(['rv', rec.wait_no, rec.resume_no])
            elif kind == 'fail':
                exc = programs.program_error(action.get('exc'), action.get('msg', 'env-fail'))
                self.world.program_errors.append(exc)
                rec.result = proc.fail(exc, None)
            elif kind == 'cancel':
                rec.result = proc.future().cancel()
            elif kind == 'cancel_stepper':
                # whoever runs the process gives up (e.g. asyncio.wait_for(proc.step_until_terminated(), t) timing out): the task
                # that steps the process is cancelled, the process itself stays live and is picked up again later
                if action.get('only_if_paused') and not (proc.paused and not getattr(proc, '_stepping', False)):
                    rec.result = 'skipped'  # (only a process that sits paused is abandoned: it can be picked up again as it is)
                elif self.task.done():
                    rec.result = 'skipped'
                else:
                    rec.result = self.task.cancel()
                    self.stepper_cancelled += 1
            elif kind == 'giveup':
                # whoever asked for the last kill / pause stops waiting for it: the future that call returned is cancelled
                # (asyncio.wait_for(proc.kill(), timeout) timing out does exactly that)
                import asyncio

                pending = [r for r in self.records if r.action['act'] in ('kill', 'pause') and asyncio.isfuture(r.result)
                           and not r.result.done()]
                if pending:
                    rec.result = pending[-1].result.cancel()
                    self.given_up += 1
                else:
                    rec.result = 'skipped'
            elif kind == 'restep':
                # somebody runs the process again
                if self.task.done() and not proc.has_terminated():
                    self.task = self.loop.create_task(proc.step_until_terminated())
                    rec.result = True
                else:
                    rec.result = 'skipped'
            elif kind == 'callback':
                fail = bool(action.get('fail'))
                ident = f'late{index}'

                def callback(ident=ident, fail=fail, proc=proc):
                    self.world.rec('callback', programs.label(proc), ident, self.plumpy.Process.current() is proc,
                                   proc.state.value)
                    if fail:
                        exc = programs.CallbackError(f'callback {ident}')
                        self.world.callback_errors.append(exc)
                        raise exc

                rec.result = proc.call_soon(callback)
            elif kind in ('rpc', 'bcast'):
                rec.result = self._send_message(action)
            elif kind == 'complete':
                future = self.world.futures.get(action['fut'])
                if future is None or future.done():
                    rec.result = 'skipped'
                elif action.get('how', 'value') == 'value':
                    value = action.get('v')
                    if value == '__uncopyable__':
                        value = programs.UncopyableValue()  # e.g. a handle to a live resource: can be neither copied nor pickled
                    rec.result = future.set_result(value)
                elif action['how'] == 'exc':
                    exc = programs.program_error(action.get('exc'), f"future {action['fut']} failed")
                    self.world.program_errors.append(exc)
                    self.world.awaitable_errors[action['fut']] = exc
                    rec.result = future.set_exception(exc)
                else:
                    rec.result = future.cancel()
                if rec.result != 'skipped':
                    self.completed.append(action['fut'])
            elif kind == 'killchild':
                children = self.world.child_by_index.get(action['child']) or []
                if not children or children[-1].has_terminated():
                    rec.result = 'skipped'
                else:
                    rec.result = children[-1].kill(action.get('msg', 'child-kill'))
            else:
                raise ValueError(f'unknown action {kind}')
        except SimError:
            raise
        except Exception as exc:  # noqa: BLE001 - judged by the oracles
            rec.raised = exc
        rec.post_state = proc.state.value
        rec.post_paused = proc.paused
        self.world.rec('acted', index, kind, result_class(rec.raised if rec.raised is not None else rec.result),
                       rec.post_state, rec.post_paused)
        self.records.append(rec)
        self.sample()
        return rec

    def _send_message(self, action):
        """Send a control message through plumpy's own controllers; returns what the controller hands back."""
        from plumpy.process_comms import Intent, MessageBuilder

        intent, text = action['intent'], action.get('msg')
        pid = self.proc.pid
        self.communicator.delivery_queue.append({'delay': action.get('delay', 0.0), 'duplicate': bool(action.get('dup')),
                                                 'reorder': bool(action.get('reorder'))})
        if action.get('raw'):
            # a hand-written message that carries nothing but the intent (no message text key): same as the call without text
            if action['act'] == 'bcast':
                return self.communicator.broadcast_send({}, subject=intent)
            return self.loop.create_task(self._raw_rpc(pid, {'intent': intent}))
        if action['act'] == 'bcast':
            controller = self.thread_controller
            if intent == 'pause':
                return controller.pause_all(text)
            if intent == 'play':
                return controller.play_all()
            if intent == 'kill':
                return controller.kill_all(text)
            return self.communicator.broadcast_send(None, subject=intent)
        if action.get('via') == 'thread':
            controller = self.thread_controller
            if intent == 'pause':
                return controller.pause_process(pid, text)
            if intent == 'play':
                return controller.play_process(pid)
            if intent == 'kill':
                return controller.kill_process(pid, text)
            if intent == 'status':
                return controller.get_status(pid)
            return self.communicator.rpc_send(pid, {'intent': intent})
        controller = self.controller
        if intent == 'pause':
            coro = controller.pause_process(pid, text)
        elif intent == 'play':
            coro = controller.play_process(pid)
        elif intent == 'kill':
            coro = controller.kill_process(pid, text)
        elif intent == 'status':
            coro = controller.get_status(pid)
        else:
            coro = self._raw_rpc(pid, {'intent': intent})
        return self.loop.create_task(coro)

    async def _raw_rpc(self, pid, msg):
        future = self.communicator.rpc_send(pid, msg)
        result = await asyncio.wrap_future(future)
        while isinstance(result, __import__('kiwipy').Future):
            result = await asyncio.wrap_future(result)
        return result

    # -- running -----------------------------------------------------------------------------
    def run_to_quiescence(self):
        with self.loop.running():
            while self.loop.step_once():
                pass

    def run_schedule(self):
        """Run until quiescent with every 'at' action fired (late ones one by one at quiescence)."""
        with self.loop.running():
            while True:
                while self.loop.step_once():
                    pass
                if self.communicator is not None:
                    self.communicator.net.flush()
                    if self.loop.runnable():
                        continue
                now = self.pending_q.pop(self.quiescences, None)
                self.quiescences += 1
                if now:
                    for index in now:
                        self.fire(index, 'quiescent')
                    continue
                if self.pending_at:
                    self.fire(self.pending_at.pop(0), 'idle')
                    continue
                if self.pending_q:
                    # quiescence points that the run never reached: fire them in order now
                    key = min(self.pending_q)
                    for index in self.pending_q.pop(key):
                        self.fire(index, 'quiescent')
                    continue
                break

    def extra_action(self, action, where='driveout'):
        self.schedule.append(action)
        with self.loop.running():
            return self.fire(len(self.schedule) - 1, where)

    def drive_out(self, max_rounds=60, resume=True):
        """Play and resume until the program can finish (each run is completed by a final play).

        :return: 'terminated' | 'lost_wakeup' (playing, WAITING, the current wait was resumed, nothing runnable)
                 | 'stuck:<state>' (live, nothing runnable, nothing left to try)
        """
        proc = self.proc
        for _ in range(max_rounds):
            self.run_to_quiescence()
            if self.stepper_cancelled and self.task.done() and not proc.has_terminated():
                # whoever gave up stepping the process is replaced: somebody runs it again
                self.extra_action({'act': 'restep'})
                self.run_to_quiescence()
            if proc.has_terminated():
                if proc.paused and self.opts.get('final_play', False):
                    # "each run is completed by a final play", also one that terminated while a pause took effect
                    self.extra_action({'act': 'play'})
                    self.run_to_quiescence()
                return 'terminated'
            if proc.paused:
                self.extra_action({'act': 'play'})
            elif proc.state.value == 'waiting' and self.case['program'].get('kind') == 'workchain':
                pending = sorted(k for k, f in self.world.futures.items() if not f.done())
                live_children = [c for c in self.world.children if not c.has_terminated()]
                if pending:
                    self.extra_action({'act': 'complete', 'fut': pending[0], 'how': 'value', 'v': f'v{pending[0]}'})
                elif live_children:
                    child = live_children[0]
                    if child.paused:
                        child.play()
                    elif child.state.value == 'waiting':
                        child.resume(['child', 0])
                    else:
                        return 'stuck:child'
                else:
                    return 'lost_wakeup'
            elif proc.state.value == 'waiting':
                if self.resumes_in_wait > 0:
                    return 'lost_wakeup'
                if not resume:
                    return 'stuck:waiting'
                self.extra_action({'act': 'resume'})
            else:
                return f'stuck:{proc.state.value}'
        return 'terminated' if proc.has_terminated() else f'stuck:{proc.state.value}'

    def finish(self):
        self.loop.hooks = None
        seams.reset_world()


def _tolerated_error(name):
    import kiwipy
    from aio_pika.exceptions import ChannelInvalidStateError, ConnectionClosed

    return {'ConnectionClosed': ConnectionClosed, 'ChannelInvalidStateError': ChannelInvalidStateError,
            'TimeoutError': kiwipy.TimeoutError}[name]('injected')


class _SecondListener:
    """Sink for a second, passive listener: records 'notify2' events only."""

    def __init__(self, engine):
        self.engine = engine

    def notified(self, event, proc, args):
        self.engine.world.rec('notify2', programs.label(proc), event)


def make_listener(plumpy, engine):
    serial = [0]

    class SimListener(plumpy.ProcessListener):
        def __init__(self):
            super().__init__()
            serial[0] += 1
            self._serial = serial[0]

        def __hash__(self):
            return self._serial

        def __eq__(self, other):
            return self is other

        def __deepcopy__(self, memo):
            return self

        def on_process_running(self, process):
            engine.notified('running', process, [])

        def on_process_waiting(self, process):
            engine.notified('waiting', process, [])

        def on_process_paused(self, process):
            engine.notified('paused', process, [])

        def on_process_played(self, process):
            engine.notified('played', process, [])

        def on_output_emitted(self, process, output_port, value, dynamic):
            engine.notified('output', process, [output_port, value, dynamic])

        def on_process_finished(self, process, outputs):
            if getattr(engine, 'opts', {}).get('late_output') and process is engine.proc and 'late' not in process.outputs:
                # an output emitted when FINISHED has just been entered (the process is not closed yet, out() is legal):
                # part of "the outputs" that every report has to agree on
                process.out('late', 'emitted on entering FINISHED')
            engine.notified('finished', process, [outputs])

        def on_process_excepted(self, process, reason):
            engine.notified('excepted', process, [reason])

        def on_process_killed(self, process, msg):
            engine.notified('killed', process, [msg])

    return SimListener()

# -*- coding: utf-8 -*-
"""Process programs as data, and the builder that turns them into real plumpy Process subclasses.

A *program* is a JSON-able dict so that it can be stored in a replay file and shrunk::

    program := {kind: 'process', steps: [step...], inputs: {...}|None}
    step    := {async: bool, awaits: [virtual seconds...], effects: [[effect...]...], ret: ret}
               effects[i] runs before awaits[i]; the last group runs after the last await
    effect  := {e: out, k: path, v: value} | {e: status, v: str} | {e: callsoon, id: n, fail: bool}
             | {e: pause, msg} | {e: play} | {e: kill, msg}
    ret     := {t: continue, to: k, args: [...], kwargs: {...}} | {t: wait, to: k, msg, data}
             | {t: value, v} | {t: stop, v, ok} | {t: unsuccessful, v} | {t: kill, msg} | {t: raise, msg}

Step 0 is ``run``; step k>0 is the method ``vstep<k>``.  Continuations always point forward
(``to`` > own index) so every program terminates.  Step functions depend only on persisted state
(arguments, the persisted ``_trace`` member) so programs are valid subjects for restart checks.
"""
import asyncio
import copy

from . import generated

HOOK_NAMES = (
    'on_create',
    'on_run',
    'on_running',
    'on_exit_running',
    'on_wait',
    'on_waiting',
    'on_exit_waiting',
    'on_finish',
    'on_finished',
    'on_kill',
    'on_killed',
    'on_except',
    'on_excepted',
    'on_terminated',
    'on_close',
    'on_pausing',
    'on_paused',
    'on_playing',
    'on_entering',
    'on_entered',
    'on_exiting',
    'on_output_emitting',
    'on_output_emitted',
)


class Token:
    """An argument with identity (picklable, equal by number): the continuation must be handed this very object unless the
    process went through a checkpoint in between."""

    def __init__(self, number):
        self.number = number

    def __eq__(self, other):
        return isinstance(other, Token) and other.number == self.number

    def __hash__(self):
        return hash(('Token', self.number))

    def __repr__(self):
        return f'Token({self.number})'


def program_error(kind, message):
    """The exception a generated step raises: a ProgramError, in a share of the programs one that is ALSO an instance of a
    builtin type the library itself catches somewhere (KeyError, ValueError, AttributeError, RuntimeError, TypeError)."""
    return PROGRAM_ERRORS.get(kind, ProgramError)(message)


class ProgramError(Exception):
    """Raised by generated step functions for ret = raise."""


class ProgramKeyError(ProgramError, KeyError):
    pass


class ProgramValueError(ProgramError, ValueError):
    pass


class ProgramAttributeError(ProgramError, AttributeError):
    pass


class ProgramRuntimeError(ProgramError, RuntimeError):
    pass


class ProgramTypeError(ProgramError, TypeError):
    pass


PROGRAM_ERRORS = {'KeyError': ProgramKeyError, 'ValueError': ProgramValueError, 'AttributeError': ProgramAttributeError,
                  'RuntimeError': ProgramRuntimeError, 'TypeError': ProgramTypeError}


class CallbackError(Exception):
    """Raised by generated call_soon callbacks that are told to fail."""


class InjectedFault(Exception):
    """Raised at a fault site chosen by the fault plan (C03)."""


class HostileFault(InjectedFault):
    """An exception that cannot even be turned into text (its __str__ raises): whatever handles it must not depend on
    formatting it eagerly."""

    def __str__(self):
        raise RuntimeError('this exception cannot be formatted')


class InjectedAssertion(InjectedFault, AssertionError):
    """The injected failure is a failed `assert` (code that treats AssertionError specially must not break anything)."""


NOVALUE = '<resume-without-value>'
_RESUME_POOL = ('rv', 0, '<array-like>', '', None, NOVALUE, False, [], {}, 'rv')


class ArrayLike:
    """A value that compares element-wise, like a numpy array or a pandas Series: ``==`` gives another such object, whose truth
    value is ambiguous (raises).  Picklable, with a stable repr."""

    def __eq__(self, other):
        return ArrayLike()

    __hash__ = None

    def __bool__(self):
        raise ValueError('The truth value of an array with more than one element is ambiguous')

    def __repr__(self):
        return '<array-like>'


def trace_resume(n_steps):
    """Resume value for a wait reached after n_steps executed steps (a function of persisted state only, so it can be
    replayed after a restore).  Cycles through truthy values, every falsy value and 'no value at all'."""
    kind = _RESUME_POOL[n_steps % len(_RESUME_POOL)]
    if kind == 'rv':
        return ['rv', n_steps]
    if kind == '<array-like>':
        return ArrayLike()
    return kind if kind == NOVALUE else __import__('copy').deepcopy(kind)


def apply_trace_resume(proc):
    value = trace_resume(len(proc._trace))
    if isinstance(value, str) and value == NOVALUE:
        return proc.resume()
    return proc.resume(value)


def step_name(index):
    return 'run' if index == 0 else f'vstep{index}'


def freeze(value):
    """JSON-like canonical form (tuples -> lists) used to compare recorded arguments."""
    if isinstance(value, (list, tuple)):
        return [freeze(v) for v in value]
    if isinstance(value, dict):
        return {str(k): freeze(v) for k, v in value.items()}
    if isinstance(value, (str, int, float, bool)) or value is None:
        return value
    if asyncio.isfuture(value):
        return '<future>'  # identity, not state: the repr of a future changes when it completes
    return repr(value)


class World:
    """Recorder shared by everything that belongs to one simulated run (survives 'crashes')."""

    def __init__(self):
        self.events = []
        self.handover = []  # children a step started (a few steps) and left unfinished: finished by the environment at top level
        self.adoptable = []  # processes the environment started at top level, to be finished from inside some process's step
        self.result_futures = []  # futures returned by steps as their plain result
        self.tokens = []  # Token objects handed to Continue by steps (identity is checked by the receiving step)
        self.site_hook = None  # callable(proc, site, count): the environment acting from inside user code (e.g. a pause)
        self.hostile = False  # raise HostileFault instead of InjectedFault
        self.bare_faults = False  # raise the fault without arguments
        self.assertion_faults = False  # the fault is an AssertionError
        self.fault = None  # (site, occurrence) -> raise InjectedFault there
        self.fault_counts = {}
        self.fault_fired = None  # the InjectedFault instance once raised
        self.program_errors = []  # ProgramError instances raised by steps, in order
        self.callback_errors = []
        self.self_results = []  # return values of control calls made from inside steps
        self.engine = None
        self.record_hooks = True
        self.futures = {}  # bare futures created by workchain steps, by id
        self.children = []  # child processes launched by steps
        self.exec_stack = []  # processes currently inside a nested child.execute() (innermost last)
        self.parent_of = {}  # id(child process) -> the process whose step started it
        self.label_by_pid = False  # label unlabelled processes by their pid (launcher checks)
        self.instances = []  # every process instance that went through init() (constructed or loaded)
        self.child_by_index = {}

    MAX_EVENTS = 60000

    def rec(self, *event):
        if len(self.events) >= self.MAX_EVENTS:
            # a run that produces this many events is not coming to rest (e.g. a step repeated for ever inside ONE loop
            # handle, which the handle counter of the loop cannot see)
            from .loop import TickLimit

            raise TickLimit(f'more than {self.MAX_EVENTS} recorded events in one run')
        self.events.append(event)

    def site(self, proc, site):
        """A potential fault site was reached."""
        count = self.fault_counts.get(site, 0)
        self.fault_counts[site] = count + 1
        if self.site_hook is not None:
            self.site_hook(proc, site, count)
        fault = self.fault
        if fault is not None and fault[0] == site and fault[1] == count and self.fault_fired is None:
            cls = HostileFault if self.hostile else (InjectedAssertion if self.assertion_faults else InjectedFault)
            exc = cls() if self.bare_faults else cls(f'{site}#{count}')  # `raise SomeError` without any argument is common
            self.fault_fired = exc
            self.rec('fault', site, count)
            raise exc


def label(proc):
    explicit = getattr(proc, '_sim_label', None)
    if explicit:
        return explicit
    world = getattr(type(proc), '_world', None)
    if world is not None and world.label_by_pid and getattr(proc, '_pid', None) is not None:
        serial = getattr(proc, '_sim_instance', None)
        return f'pid:{proc._pid}' if serial is None else f'pid:{proc._pid}#{serial}'
    return 'p'


def _do_effect(proc, world, eff, plumpy):
    kind = eff['e']
    if kind == 'out':
        proc.out(eff['k'], UncopyableValue() if eff['v'] == '__uncopyable__' else eff['v'])
    elif kind == 'status':
        proc.set_status(eff['v'])
    elif kind == 'callsoon':
        ident, fail = eff['id'], bool(eff.get('fail'))

        def callback(ident=ident, fail=fail, proc=proc):
            world.rec('callback', label(proc), ident, current_is(proc, plumpy), proc.state.value)
            world.site(proc, f'callback:{ident}')
            if fail:
                exc = CallbackError(f'callback {ident}')
                world.callback_errors.append(exc)
                raise exc

        async def async_callback(ident=ident, fail=fail, proc=proc):
            # a coroutine function as callback: probed before and after an await
            world.rec('callback', label(proc), ident, current_is(proc, plumpy), proc.state.value)
            await asyncio.sleep(0)
            world.rec('callback', label(proc), f'{ident}+', current_is(proc, plumpy), proc.state.value)
            world.site(proc, f'callback:{ident}')
            if fail:
                exc = CallbackError(f'callback {ident}')
                world.callback_errors.append(exc)
                raise exc

        proc.call_soon(async_callback if eff.get('coro') else callback)
    elif kind == 'callsoon_parent':
        # a child schedules a callback on the process that started it (the callback is the PARENT's code)
        parent = world.parent_of.get(id(proc))
        if parent is not None:
            ident = eff['id']

            def parent_callback(ident=ident, parent=parent):
                world.rec('callback', label(parent), f'from-child:{ident}', current_is(parent, plumpy),
                          parent.state.value)

            async def parent_coro_callback(ident=ident, parent=parent):
                world.rec('callback', label(parent), f'from-child:{ident}', current_is(parent, plumpy),
                          parent.state.value)
                await asyncio.sleep(0)
                world.rec('callback', label(parent), f'from-child:{ident}+', current_is(parent, plumpy),
                          parent.state.value)

            parent.call_soon(parent_coro_callback if eff.get('coro') else parent_callback)
            world.rec('scheduled_on_parent', label(proc), label(parent))
    elif kind in ('launch', 'execute'):
        child_cls = proc.__class__._children[eff['child']]
        world.child_serial = getattr(world, 'child_serial', 0) + 1
        child_label = f'{label(proc)}.c{world.child_serial}'
        if kind == 'launch':
            child = proc.launch(child_cls)
            child._sim_label = child_label
            world.children.append(child)
            world.parent_of[id(child)] = proc
            world.rec('launched', label(proc), child_label, current_is(proc, plumpy))
        else:
            child = child_cls(loop=proc.loop)
            child._sim_label = child_label
            world.children.append(child)
            world.parent_of[id(child)] = proc
            world.exec_stack.append(proc)
            try:
                outputs = child.execute()
            finally:
                world.exec_stack.pop()
            world.rec('after_nested', label(proc), child_label, current_is(proc, plumpy), freeze(outputs),
                      child.state.value)
    elif kind == 'execute_clone':
        # the process checkpoints itself and a copy recreated from that checkpoint (same pid, another instance) is executed
        # re-entrantly from inside this very step; the copy runs the step again, does not clone any further, and finishes
        if not getattr(world, 'cloned', False):
            world.cloned = True
            clone = plumpy.Bundle(proc).unbundle(plumpy.LoadSaveContext(loop=proc.loop))
            clone._sim_label = f'{label(proc)}.clone'
            world.children.append(clone)
            world.parent_of[id(clone)] = proc
            world.exec_stack.append(proc)
            try:
                clone.execute()
            finally:
                world.exec_stack.pop()
            world.rec('after_nested', label(proc), clone._sim_label, current_is(proc, plumpy), None, clone.state.value)
    elif kind in ('pause', 'play', 'kill'):
        live = not proc.has_terminated()
        try:
            if kind == 'pause':
                result = proc.pause(eff.get('msg'))
            elif kind == 'play':
                result = proc.play()
            else:
                result = proc.kill(eff.get('msg'))
        except Exception as exc:  # noqa: BLE001 - recorded, judged by the oracle
            result = exc
        world.self_results.append((kind, live, result))
        world.rec('selfact', label(proc), kind, live, _result_class(result))
    else:
        raise ValueError(f'unknown effect {kind}')


def _result_class(result):
    if isinstance(result, BaseException):
        return 'raised:' + type(result).__name__
    if result is True or result is False or result is None:
        return repr(result)
    if asyncio.isfuture(result):
        return 'future'
    return type(result).__name__


_subclasses = {}


def _unsuccessful_subclass(plumpy):
    if 'unsuccessful' not in _subclasses:
        _subclasses['unsuccessful'] = type('ExitCode', (plumpy.UnsuccessfulResult,), {})
    return _subclasses['unsuccessful']


def _unrelated_class(plumpy):
    """A Process subclass none of the generated processes is an instance of: current() asked through it is still the
    process whose code runs (it is a classmethod of Process, not a typed lookup)."""
    if 'unrelated' not in _subclasses:
        _subclasses['unrelated'] = type('UnrelatedProcess', (plumpy.Process,), {})
    return _subclasses['unrelated']


def current_is(proc, plumpy):
    return plumpy.Process.current() is proc and _unrelated_class(plumpy).current() is proc


class UncopyableValue:
    """A result that cannot be copied or pickled (it holds a lock), e.g. a handle to a live resource."""

    def __init__(self):
        import threading

        self.lock = threading.Lock()

    def __repr__(self):
        return '__uncopyable__'  # (the marker cases and models use for it)


def _make_ret(proc, world, ret, plumpy):
    kind = ret['t']
    if ret.get('subcmd') and kind in ('continue', 'wait', 'stop', 'kill'):
        # an application's own subclass of the command (e.g. class Retry(plumpy.Continue)): means what its base means
        base = {'continue': plumpy.Continue, 'wait': plumpy.Wait, 'stop': plumpy.Stop, 'kill': plumpy.Kill}[kind]
        plain = _make_ret(proc, world, {k: v for k, v in ret.items() if k != 'subcmd'}, plumpy)
        if f'cmd:{kind}' not in _subclasses:
            cls = type(f'App{base.__name__}', (base,), {})
            generated.register(cls, f'App{base.__name__}')
            _subclasses[f'cmd:{kind}'] = cls
        clone = _subclasses[f'cmd:{kind}'].__new__(_subclasses[f'cmd:{kind}'])
        clone.__dict__.update(plain.__dict__)
        return clone
    if kind == 'continue':
        # (fresh objects every time: a step may change its arguments in place)
        args = copy.deepcopy(ret.get('args', []))
        if ret.get('token') is not None:
            token = Token(ret['token'])
            world.tokens.append(token)
            args.append(token)
        return plumpy.Continue(getattr(proc, step_name(ret['to'])), *args, **copy.deepcopy(ret.get('kwargs', {})))
    if kind == 'wait':
        if ret.get('to') is None:
            return plumpy.Wait(None, ret.get('msg'), ret.get('data'))  # a wait without continuation (can only be killed)
        return plumpy.Wait(getattr(proc, step_name(ret['to'])), ret.get('msg'), ret.get('data'))
    if kind == 'value':
        if ret.get('future'):
            # the plain result of the step is a future object (resolved or pending): a value like any other
            future = asyncio.Future()
            if ret['future'] == 'done':
                future.set_result('inner value')
            world.result_futures.append(future)
            return future
        return ret['v']
    if kind == 'stop':
        return plumpy.Stop(ret['v'], ret['ok'])
    if kind == 'unsuccessful':
        if ret.get('sub'):
            # an application's own exit-code class derived from UnsuccessfulResult
            return _unsuccessful_subclass(plumpy)(ret['v'])
        return plumpy.UnsuccessfulResult(ret['v'])
    if kind == 'kill':
        from plumpy.process_comms import MessageBuilder

        if ret.get('raw'):
            return plumpy.Kill()  # the command without any message at all
        return plumpy.Kill(MessageBuilder.kill(ret.get('msg')))
    if kind == 'raise':
        exc = program_error(ret.get('exc'), ret.get('msg', 'boom'))
        world.program_errors.append(exc)
        world.rec('raise', label(proc), ret.get('msg', 'boom'))
        raise exc
    raise ValueError(f'unknown ret {kind}')


def _make_step(index, step, world, plumpy, program_reads_inputs=False):
    name = step_name(index)
    groups = list(step.get('effects') or [[]])
    awaits = list(step.get('awaits') or []) if step.get('async') else []
    while len(groups) < len(awaits) + 1:
        groups.append([])

    def enter(self, args, kwargs):
        world.rec(
            'step',
            label(self),
            name,
            freeze(args),
            freeze(kwargs),
            self.paused,
            self.status,
            current_is(self, plumpy),
        )
        trace = getattr(self, '_trace', None)
        if trace is not None:
            trace.append([name, freeze(args), freeze(kwargs)])
        if program_reads_inputs:
            world.rec('inputs', label(self), name, sorted(self.inputs))  # the parsed inputs are a mapping, also when empty
        for value in args:
            if isinstance(value, Token):
                world.rec('token', label(self), name, value.number, any(value is known for known in world.tokens))
        world.site(self, f'step:{name}')
        if step.get('mutargs'):
            # the step works on its arguments in place (they are its own: nothing else may notice)
            for value in list(args) + list(kwargs.values()):
                if isinstance(value, list):
                    value.append('changed-in-place')
                elif isinstance(value, dict):
                    value['changed-in-place'] = True

    if step.get('async'):

        async def fn(self, *args, **kwargs):
            enter(self, args, kwargs)
            for gi, group in enumerate(groups):
                for eff in group:
                    if eff['e'] == 'await_child':
                        # the step awaits a child's stepping coroutine DIRECTLY (same task, same context)
                        child_cls = self.__class__._children[eff['child']]
                        world.child_serial = getattr(world, 'child_serial', 0) + 1
                        child = child_cls(loop=self.loop)
                        child._sim_label = f'{label(self)}.c{world.child_serial}'
                        world.children.append(child)
                        world.parent_of[id(child)] = self
                        await child.step_until_terminated()
                        world.rec('after_nested', label(self), child._sim_label, current_is(self, plumpy), None,
                                  child.state.value)
                    elif eff['e'] == 'start_child':
                        # the step takes a child through its first step(s) only; somebody else finishes it later, from
                        # another task and another context
                        child_cls = self.__class__._children[eff['child']]
                        world.child_serial = getattr(world, 'child_serial', 0) + 1
                        child = child_cls(loop=self.loop)
                        child._sim_label = f'{label(self)}.c{world.child_serial}'
                        world.children.append(child)
                        world.parent_of[id(child)] = self
                        for _ in range(eff.get('n', 1)):
                            if not child.has_terminated():
                                await child.step()
                        world.rec('after_nested', label(self), child._sim_label, current_is(self, plumpy), None,
                                  child.state.value)
                        if not child.has_terminated():
                            world.handover.append(child)
                    elif eff['e'] == 'adopt':
                        # the step finishes a process that took its first steps at top level
                        if world.adoptable:
                            target = world.adoptable.pop(0)
                            if not target.has_terminated():
                                await target.step_until_terminated()
                            world.rec('after_nested', label(self), label(target), current_is(self, plumpy), None,
                                      target.state.value)
                    else:
                        _do_effect(self, world, eff, plumpy)
                if gi < len(awaits):
                    await asyncio.sleep(awaits[gi])
                    world.rec(
                        'resumed', label(self), name, gi, self.paused, self.status, current_is(self, plumpy)
                    )
                    world.site(self, f'step:{name}@{gi}')
            return _make_ret(self, world, step['ret'], plumpy)

    else:

        def fn(self, *args, **kwargs):
            enter(self, args, kwargs)
            for group in groups:
                for eff in group:
                    _do_effect(self, world, eff, plumpy)
            return _make_ret(self, world, step['ret'], plumpy)

    fn.__name__ = name
    fn.__qualname__ = name
    return fn


def _make_hook(name, world, base):
    def hook(self, *args, **kwargs):
        if world.record_hooks:
            import sys

            world.rec('hook', label(self), name, sys.modules['plumpy'].Process.current() is self)
        world.site(self, f'hook:{name}')
        value = getattr(super(cls_holder[0], self), name)(*args, **kwargs)
        world.site(self, f'hook:{name}:post')
        return value

    cls_holder = [None]
    hook.__name__ = name
    return hook, cls_holder


_class_serial = [0]


def build_process_class(program, world, plumpy, hooks=True, record_calls=True):
    """Build a real ``plumpy.Process`` subclass for the program."""
    from plumpy import persistence

    namespace = {}
    for index, step in enumerate(program['steps']):
        namespace[step_name(index)] = _make_step(index, step, world, plumpy, bool(program.get('reads_inputs')))

    holders = []
    if hooks:
        for hook_name in HOOK_NAMES:
            fn, holder = _make_hook(hook_name, world, plumpy.Process)
            namespace[hook_name] = fn
            holders.append(holder)

    requires_output = bool(program.get('required_output'))

    def define(cls, spec):
        super(cls_ref[0], cls).define(spec)
        spec.inputs.dynamic = True
        spec.outputs.dynamic = True
        if requires_output:
            # a declared, required output: a normal return without it still finishes, with its result, but unsuccessfully
            spec.output('req', required=True)

    cls_ref = [None]
    namespace['define'] = classmethod(define)

    def __init__(self, *args, **kwargs):
        super(cls_ref[0], self).__init__(*args, **kwargs)
        self._trace = []
        world.site(self, 'init')
        if program.get('init_callback'):
            # the constructor schedules a callback: it runs before the first step, while the process is still CREATED
            def callback(proc=self):
                world.rec('callback', label(proc), 'init', current_is(proc, plumpy), proc.state.value)
                world.site(proc, 'callback:init')

            self.call_soon(callback)

    namespace['__init__'] = __init__

    def init(self):
        super(cls_ref[0], self).init()
        self._sim_instance = len(world.instances)
        world.instances.append(self)
        world.rec('init', label(self), self.state.value)

    namespace['init'] = init

    if program.get('codec'):
        # like downstream users (AiiDA), the process stores its inputs and outputs in a representation of its own
        def encode_input_args(self, inputs):
            return {'encoded-by-process': copy.deepcopy(dict(inputs))}

        def decode_input_args(self, encoded):
            return copy.deepcopy(encoded['encoded-by-process'])

        namespace['encode_input_args'] = encode_input_args
        namespace['decode_input_args'] = decode_input_args

    if program.get('custom_waiting'):
        # like downstream users (AiiDA), the process substitutes its own subclass of the WAITING state
        from plumpy import process_states

        waiting_cls = type('GenWaiting', (process_states.Waiting,), {})
        generated.register(waiting_cls, f'GenWaiting{_class_serial[0] + 1}')

        def get_state_classes(cls):
            states = super(cls_ref[0], cls).get_state_classes()
            states[process_states.ProcessState.WAITING] = waiting_cls
            return states

        namespace['get_state_classes'] = classmethod(get_state_classes)

    if record_calls:
        # public control methods are overridden only to *record* the calls actually made (including
        # those made on the process's behalf by the future-cancel hook or by RPC handlers)
        def kill(self, msg_text=None):
            world.rec('call', label(self), 'kill', msg_text, not self.has_terminated())
            return super(cls_ref[0], self).kill(msg_text)

        def pause(self, msg_text=None):
            world.rec('call', label(self), 'pause', msg_text, not self.has_terminated())
            return super(cls_ref[0], self).pause(msg_text)

        def play(self):
            world.rec('call', label(self), 'play', None, not self.has_terminated())
            return super(cls_ref[0], self).play()

        def message_receive(self, _comm, msg):
            world.rec('msg', label(self), 'rpc', (msg or {}).get('intent') if isinstance(msg, dict) else None, not self.has_terminated())
            return super(cls_ref[0], self).message_receive(_comm, msg)

        def broadcast_receive(self, _comm, body, sender, subject, correlation_id):
            world.rec('msg', label(self), 'broadcast', subject, not self.has_terminated())
            return super(cls_ref[0], self).broadcast_receive(_comm, body, sender, subject, correlation_id)

        namespace.update(kill=kill, pause=pause, play=play, message_receive=message_receive, broadcast_receive=broadcast_receive)

    _class_serial[0] += 1
    name = f'GenProcess{_class_serial[0]}'
    cls = type(plumpy.Process)(name, (plumpy.Process,), namespace)
    cls = persistence.auto_persist('_trace')(cls)
    cls_ref[0] = cls
    for holder in holders:
        holder[0] = cls
    cls._world = world
    cls._program = program
    cls._children = [build_process_class(child, world, plumpy, hooks=hooks, record_calls=record_calls)
                     for child in program.get('children') or []]
    generated.register(cls, name)
    return cls


# ---------------------------------------------------------------------------------------------
# Reference model of a process program (what the statement of C13/C05/C08 says should happen)


def model_run(program, resume_values=None, max_steps=64, repeats=()):
    """Return the expected uninterrupted execution of a program.

    ``resume_values[k]`` is the value given to the k-th wait (``None`` entry or missing = resume
    without a value is never used by the engines, they always pass a value).

    :return: dict(trace=[[name,args,kwargs]...], outputs={...}, final=state, result=..., ok=bool,
                  kill_msg=..., waits=n, raised=msg|None, statuses=[status at entry of each step])
    """
    steps = program['steps']
    trace = []
    outputs = {}
    statuses = []
    status = None
    index, args, kwargs = 0, [], {}
    waits = 0
    callbacks_fail = False
    for _ in range(max_steps):
        step = steps[index]
        trace.append([step_name(index), freeze(args), freeze(kwargs)])
        statuses.append(status)
        while len(trace) - 1 in repeats:
            # a checkpoint written while this step's state was being left (the step had returned, its command had not
            # taken effect yet) was restored: the step is executed once more, then its command is carried out
            trace.append([step_name(index), freeze(args), freeze(kwargs)])
            statuses.append(status)
        for group in step.get('effects') or []:
            for eff in group:
                if eff['e'] == 'out':
                    node = outputs
                    parts = eff['k'].split('.')
                    for part in parts[:-1]:
                        node = node.setdefault(part, {})
                    node[parts[-1]] = eff['v']
                elif eff['e'] == 'status':
                    status = eff['v']
                elif eff['e'] == 'callsoon' and eff.get('fail'):
                    callbacks_fail = True
        ret = step['ret']
        kind = ret['t']
        base = dict(trace=trace, outputs=outputs, waits=waits, statuses=statuses, callbacks_fail=callbacks_fail)
        if kind == 'continue':
            index, args, kwargs = ret['to'], list(ret.get('args', [])), dict(ret.get('kwargs', {}))
            if ret.get('token') is not None:
                args.append(repr(Token(ret['token'])))
            continue
        if kind == 'wait':
            if resume_values == 'trace':
                value = trace_resume(len(trace))
                if isinstance(value, str) and value == NOVALUE:
                    waits += 1
                    index, args, kwargs = ret['to'], [], {}
                    continue
            else:
                value = resume_values[waits] if resume_values is not None and waits < len(resume_values) else ['rv', waits, 0]
            waits += 1
            index, args, kwargs = ret['to'], [value], {}
            continue
        satisfied = not program.get('required_output') or 'req' in outputs
        if kind == 'value':
            return dict(base, final='finished', result='<future>' if ret.get('future') else ret['v'], ok=satisfied, waits=waits)
        if kind == 'stop':
            return dict(base, final='finished', result=ret['v'], ok=bool(ret['ok']) and satisfied, waits=waits)
        if kind == 'unsuccessful':
            return dict(base, final='finished', result=ret['v'], ok=False, waits=waits)
        if kind == 'kill':
            return dict(base, final='killed', kill_msg=ret.get('msg'), waits=waits)
        if kind == 'raise':
            return dict(base, final='excepted', raised=ret.get('msg', 'boom'), waits=waits)
        raise ValueError(kind)
    raise ValueError('program does not terminate')


# ---------------------------------------------------------------------------------------------
# Generators

VALUES = [0, 1, -3, 'a', 'bb', None, True, [1, 2], {'k': 'v'}, 2.5, '', [], {}, False, {'n': [1, {'deep': None}]}, 10 ** 20]


def gen_value(rng):
    return VALUES[rng.randrange(len(VALUES))]


def gen_process_program(rng, cfg=None):
    """Seeded generator of process programs.  ``cfg`` keys (all optional):
    max_steps, p_async, p_wait, rets (allowed terminal kinds), effects (allowed effect kinds),
    p_fail_callback, kwargs (bool), selfacts (list of self-control effects allowed)
    """
    cfg = cfg or {}
    n_steps = rng.randint(1, cfg.get('max_steps', 4))
    p_async = cfg.get('p_async', 0.5)
    p_wait = cfg.get('p_wait', 0.35)
    terminal = cfg.get('rets', ['value', 'stop', 'unsuccessful', 'kill', 'raise'])
    effect_kinds = cfg.get('effects', ['out', 'status', 'callsoon'])
    selfacts = cfg.get('selfacts', [])
    durations = cfg.get('durations', [0, 0.5, 1, 1, 2])
    steps = []
    cb_id = 0
    for index in range(n_steps):
        is_async = rng.random() < p_async
        n_await = rng.randint(0, cfg.get('max_awaits', 2)) if is_async else 0
        awaits = [durations[rng.randrange(len(durations))] for _ in range(n_await)]
        groups = []
        for _ in range(n_await + 1):
            group = []
            for _ in range(rng.choice([0, 0, 1, 1, 2])):
                pool = effect_kinds + (selfacts if rng.random() < cfg.get('p_selfact', 0.25) else [])
                if not pool:
                    break
                kind = pool[rng.randrange(len(pool))]
                if kind == 'out':
                    key = rng.choice(['a', 'b', 'ns.x', 'ns.y', 'ns.deep.z'])
                    group.append({'e': 'out', 'k': key, 'v': gen_value(rng)})
                    if cfg.get('uncopyable_outputs') and rng.random() < 0.1:
                        group[-1]['v'] = '__uncopyable__'  # e.g. a handle to a live resource
                elif kind == 'status':
                    group.append({'e': 'status', 'v': rng.choice(['s1', 's2', 'busy', ''])})
                elif kind == 'callsoon':
                    cb_id += 1
                    fail = rng.random() < cfg.get('p_fail_callback', 0.0)
                    group.append({'e': 'callsoon', 'id': cb_id, 'fail': fail})
                    if cfg.get('coro_callbacks') and rng.random() < 0.4:
                        group[-1]['coro'] = True
                elif kind == 'pause':
                    group.append({'e': 'pause', 'msg': rng.choice([None, '', 'self-pause'])})
                elif kind == 'play':
                    group.append({'e': 'play'})
                elif kind == 'kill':
                    group.append({'e': 'kill', 'msg': rng.choice([None, 'self-kill'])})
            groups.append(group)
        last = index == n_steps - 1
        if not last and rng.random() < 0.85:
            target = rng.randint(index + 1, n_steps - 1)
            if rng.random() < p_wait:
                ret = {'t': 'wait', 'to': target, 'msg': rng.choice([None, 'waiting']), 'data': gen_value(rng)}
            else:
                n_args = rng.choice([0, 0, 1, 2])
                ret = {'t': 'continue', 'to': target, 'args': [gen_value(rng) for _ in range(n_args)], 'kwargs': {}}
                if cfg.get('kwargs') and rng.random() < 0.5:
                    ret['kwargs'] = {rng.choice(['x', 'y', 'zz']): gen_value(rng) for _ in range(rng.randint(1, 2))}
        else:
            kind = terminal[rng.randrange(len(terminal))]
            if kind == 'value':
                ret = {'t': 'value', 'v': gen_value(rng)}
                if cfg.get('future_results') and not is_async and rng.random() < 0.15:
                    ret['future'] = rng.choice(['done', 'pending'])
            elif kind == 'stop':
                ret = {'t': 'stop', 'v': gen_value(rng), 'ok': rng.random() < 0.5}
            elif kind == 'unsuccessful':
                ret = {'t': 'unsuccessful', 'v': rng.choice([1, 2, 400, 0, None, '', False])}
                if rng.random() < 0.3:
                    ret['sub'] = True
            elif kind == 'kill':
                ret = {'t': 'kill', 'msg': rng.choice([None, '', 'prog-kill'])}
                if cfg.get('raw_kill', True) and rng.random() < 0.3:
                    ret = {'t': 'kill', 'msg': None, 'raw': True}
            else:
                ret = {'t': 'raise', 'msg': f'boom{index}'}
                if rng.random() < 0.4:
                    ret['exc'] = rng.choice(sorted(PROGRAM_ERRORS))
        steps.append({'async': is_async, 'awaits': awaits, 'effects': groups, 'ret': ret})
    program = {'kind': 'process', 'steps': steps, 'inputs': None}
    if rng.random() < cfg.get('p_custom_waiting', 0.25):
        program['custom_waiting'] = True
    if rng.random() < cfg.get('p_required_output', 0.0):
        program['required_output'] = True
        if rng.random() < 0.5:
            # ... which half of the programs emit, somewhere
            step = steps[rng.randrange(len(steps))]
            step['effects'][0].append({'e': 'out', 'k': 'req', 'v': gen_value(rng)})
    return program


def canonical_programs():
    """Small hand-written programs whose neighbourhoods the quick tier visits systematically."""

    def st(ret, is_async=False, awaits=(), effects=None):
        return {'async': is_async, 'awaits': list(awaits), 'effects': effects or [[]], 'ret': ret}

    val = {'t': 'value', 'v': 7}
    return {
        'sync2': {'kind': 'process', 'inputs': None, 'steps': [st({'t': 'continue', 'to': 1, 'args': [1], 'kwargs': {}}), st(val)]},
        'async1': {
            'kind': 'process',
            'inputs': None,
            'steps': [
                st({'t': 'continue', 'to': 1, 'args': [], 'kwargs': {}}, True, [1, 1], [[{'e': 'status', 'v': 's1'}], [], []]),
                st(val, True, [0]),
            ],
        },
        'wait1': {
            'kind': 'process',
            'inputs': None,
            'steps': [st({'t': 'wait', 'to': 1, 'msg': 'w', 'data': None}), st({'t': 'continue', 'to': 2, 'args': [], 'kwargs': {}}), st(val)],
        },
        'wait2': {
            'kind': 'process',
            'inputs': None,
            'steps': [
                st({'t': 'wait', 'to': 1, 'msg': None, 'data': 1}, True, [1]),
                st({'t': 'wait', 'to': 2, 'msg': None, 'data': 2}),
                st(val, False, (), [[{'e': 'out', 'k': 'a', 'v': 1}]]),
            ],
        },
        'raise1': {
            'kind': 'process',
            'inputs': None,
            'steps': [st({'t': 'continue', 'to': 1, 'args': [], 'kwargs': {}}, True, [1]), st({'t': 'raise', 'msg': 'boom'}, True, [1])],
        },
    }

# -*- coding: utf-8 -*-
"""Namespace in which generated process classes live so that object loaders can resolve them
(``simkit.generated:<name>``) after a simulated restart.  Cleared between cases."""
_names = []


def register(cls, name=None):
    name = name or cls.__name__
    cls.__name__ = name
    cls.__qualname__ = name
    cls.__module__ = __name__
    globals()[name] = cls
    _names.append(name)
    return cls


def clear():
    for name in _names:
        globals().pop(name, None)
    del _names[:]

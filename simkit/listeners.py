# -*- coding: utf-8 -*-
"""Importable (hence picklable / YAML-able) listener used where listeners travel inside bundles."""
from simkit import seams

plumpy = seams.install()


class PlainListener(plumpy.ProcessListener):
    """Counts nothing, keeps its init parameters: persisted with the process it listens to."""

    def __init__(self, **params):
        super().__init__()
        self.init(**params)

    def __hash__(self):
        return 7  # constant: the object may be hashed (by YAML, building the listener set) before it has its state

    def __eq__(self, other):
        return type(other) is type(self) and getattr(other, '_params', None) == getattr(self, '_params', None)


class PauseEachStep(plumpy.ProcessListener):
    """Pauses the process every time it enters RUNNING, so that each play() advances it by exactly one step
    (used to make synchronous workchains progress gradually between persister operations)."""

    def __hash__(self):
        return 11

    def __eq__(self, other):
        return type(other) is type(self)

    def on_process_running(self, process):
        process.pause()


PAUSED_HOOK = [None]  # set by the restart machinery for the duration of a run


class CheckpointOnPaused(plumpy.ProcessListener):
    """Tells the restart machinery that the process reports paused (a point at which deployments write a checkpoint);
    persisted with the process, so a restored process keeps reporting."""

    def __hash__(self):
        return 13

    def __eq__(self, other):
        return type(other) is type(self)

    def on_process_paused(self, process):
        if PAUSED_HOOK[0] is not None:
            PAUSED_HOOK[0](process, 'paused')

    def on_process_played(self, process):
        if PAUSED_HOOK[0] is not None:
            PAUSED_HOOK[0](process, 'played')

# -*- coding: utf-8 -*-
"""Crash/restart machinery: checkpoint through a medium, abandon the instance, restore in a fresh loop.

A *crash* is taken from inside a public ENTERED_STATE callback (the place where a checkpointing
deployment, e.g. AiiDA, writes its checkpoint): the bundle is produced through the chosen medium and
``SimCrash`` (a BaseException) is raised, which kills the stepping task on the spot - the instance
is never touched again and only what went through the medium survives.
"""
import copy
import pickle
import shutil
import tempfile

import yaml

from . import programs, seams
from .loop import SimError, TickLimit

MEDIA = ('deepcopy', 'pickle', 'yaml')


class SimCrash(BaseException):
    """The simulated process (in the OS sense) dies here."""


def through_medium(bundle, medium):
    if medium == 'deepcopy':
        return copy.deepcopy(bundle)
    if medium == 'pickle':
        return pickle.loads(pickle.dumps(bundle))
    if medium == 'yaml':
        return yaml.load(yaml.dump(bundle), Loader=yaml.Loader)
    raise ValueError(medium)


def make_custom_loader(plumpy, strict=False):
    """An object loader with its own identifiers that the default loader cannot resolve for
    generated classes ('gen!<name>'), everything else is delegated.  ``strict``: it refuses the default loader's
    identifiers of generated classes (they are not its own)."""
    from . import generated

    class CustomLoader(plumpy.DefaultObjectLoader):
        loads = 0

        def identify_object(self, obj):
            if getattr(obj, '__module__', None) == generated.__name__:
                return f'gen!{obj.__name__}'
            return super().identify_object(obj)

        def load_object(self, identifier):
            if identifier.startswith('gen!'):
                CustomLoader.loads += 1
                return getattr(generated, identifier[4:])
            if strict and generated.__name__ in identifier and 'CustomLoader' not in identifier:
                raise ValueError(f'{identifier!r} is not an identifier of this loader')
            return super().load_object(identifier)

    CustomLoader.__module__ = generated.__name__
    CustomLoader.__qualname__ = CustomLoader.__name__ = 'CustomLoader'
    generated.register(CustomLoader, 'CustomLoader')
    return CustomLoader()


class PersisterHandle:
    """A checkpoint that lives in one of plumpy's bundled persisters (written by save_checkpoint, read by load_checkpoint)."""

    def __init__(self, persister, pid, directory=None, tag=None):
        self.persister, self.pid, self.directory, self.tag = persister, pid, directory, tag

    def fetch(self):
        return self.persister.load_checkpoint(self.pid, self.tag)

    def discard(self):
        if self.directory is not None:
            shutil.rmtree(self.directory, ignore_errors=True)


PERSISTER_MEDIA = ('persister:memory', 'persister:pickle')


def save(proc, medium, loader=None, tag=None, store=None):
    """``store``: dict kept by the caller in which the persister of each medium lives for the whole run, so that later
    checkpoints under the same (pid, tag) overwrite earlier ones in the same persister."""
    plumpy = seams.install()
    if medium == 'persister:memory':
        persister = store.get(medium) if store is not None else None
        if persister is None:
            persister = plumpy.InMemoryPersister(loader=loader)
            if store is not None:
                store[medium] = persister
        persister.save_checkpoint(proc, tag)
        return PersisterHandle(persister, proc.pid, tag=tag)
    if medium == 'persister:pickle':
        known = store.get(medium) if store is not None else None
        if known is not None:
            persister, directory = known
            persister.save_checkpoint(proc, tag)
            return PersisterHandle(persister, proc.pid, None, tag=tag)  # (the directory belongs to the first handle)
        directory = tempfile.mkdtemp(prefix='simkit-restart-')
        try:
            persister = plumpy.PicklePersister(directory)
            persister.save_checkpoint(proc, tag)
        except BaseException:
            shutil.rmtree(directory, ignore_errors=True)
            raise
        if store is not None:
            store[medium] = (persister, directory)
        return PersisterHandle(persister, proc.pid, directory, tag=tag)
    context = plumpy.LoadSaveContext(loader=loader) if loader is not None else None
    bundle = plumpy.Bundle(proc, context)
    if medium == 'bundle':
        return bundle  # the Bundle object itself, kept in memory as it is
    return through_medium(bundle, medium)


def load(bundle, loop, loader=None):
    plumpy = seams.install()
    if isinstance(bundle, PersisterHandle):
        bundle = bundle.fetch()
    context = plumpy.LoadSaveContext(loop=loop, loader=loader) if loader is not None else plumpy.LoadSaveContext(loop=loop)
    return bundle.unbundle(context)


class RestartRun:
    """Run a generated program to completion, crashing at the chosen step boundaries.

    boundaries are numbered in execution order over the whole (multi-incarnation) history:
    boundary 0 = right after construction (state CREATED), boundary i>0 = the i-th entry into
    RUNNING or WAITING.  ``crashes`` maps boundary number -> how many times in a row to crash there
    (the restored process is saved and abandoned again before it makes any progress).
    """

    def __init__(self, program, crashes=None, media=None, loader_mode='default', build=None, max_rounds=200, pauses=None,
                 crash_paused=None, pause_in_step=None, crash_on_paused=None, crash_on_played=None, lag=None, tags=None,
                 crash_on_exit=None, lose_at=None, detached=False, pause_at_resume=None):
        self.plumpy = seams.install()
        # ordinals of wake-ups that are preceded, in the same loop iteration, by a pause request (played again afterwards)
        self.pause_at_resume = set(int(n) for n in (pause_at_resume or []))
        self.wake_ordinal = 0
        self.last_woken_state = None
        self.resume_lost = None
        self.program = program
        self.crashes = {int(k): v for k, v in (crashes or {}).items()}
        self.media = list(media or ['deepcopy'])
        self.loader_mode = loader_mode
        self.world = programs.World()
        self.world.record_hooks = False
        self.incarnations = 0
        self.boundary = 0
        self.restores = 0
        self.pending_bundle = None
        self.proc = None
        self.sim_time = 0.0
        self.ticks = 0
        self.max_rounds = max_rounds
        self.build = build
        self.unsavable = 0
        self.crash_states = []
        self.load_error = None
        self.resume_error = None
        self.runaway = None
        self.task = None
        # boundaries at which a pause is requested (from inside the transition), and those at which the PAUSED process is
        # checkpointed and abandoned instead of being played
        self.pauses = set(int(b) for b in (pauses or []))
        self.crash_paused = set(int(b) for b in (crash_paused or []))
        # ordinals (over the whole history) of step-function executions from inside which a pause is requested - the pause
        # is then carried out together with the transition that follows the step - and ordinals of 'paused' listener
        # notifications at which the checkpoint is written and the instance abandoned
        self.pause_in_step = set(int(b) for b in (pause_in_step or []))
        self.crash_on_paused = set(int(b) for b in (crash_on_paused or []))
        self.crash_on_played = set(int(b) for b in (crash_on_played or []))
        # boundary -> number of further boundaries the instance runs on after the checkpoint was written before it is
        # abandoned (without another checkpoint): that progress is lost, the checkpoint must not have noticed it
        self.lag = {int(k): int(v) for k, v in (lag or {}).items()}
        self.lagging = None
        # tags under which checkpoints go into a persister (cycled); while an instance runs on after a TAGGED checkpoint it
        # keeps writing the untagged "latest" checkpoint at every boundary, as an application with named snapshots does
        self.tags = list(tags or [None])
        # ordinals of EXITING_STATE events (leaving RUNNING or WAITING) at which the checkpoint is written: after the step
        # returned, before its command has taken effect
        self.crash_on_exit = set(int(b) for b in (crash_on_exit or []))
        # boundaries at which an instance that was restored from a persister checkpoint is lost WITHOUT a new checkpoint: the
        # same stored checkpoint is loaded once more (what it holds must not have followed the first restored instance)
        self.lose_at = [int(b) for b in (lose_at or [])]
        self.handles = []
        self.last_handle = None
        # the loop a checkpoint is loaded into is named in the load context but is NOT the thread's current event loop (which
        # is some other loop, as in an application that runs several): whatever the restored process creates belongs to the
        # loop it was given
        self.detached = bool(detached)
        self.other_loop = None
        self.store = {}  # one persister per medium for the whole run: checkpoints under one key overwrite each other
        self.exit_ordinal = 0
        self.played_ordinal = 0
        self.step_ordinal = 0
        self.paused_ordinal = 0
        self.world.site_hook = self._in_user_code

    def _save(self, proc, tag=None):
        bundle = save(proc, self._medium(), self._loader(), tag, self.store)
        self.lagging = None  # a newer checkpoint supersedes the one an instance was running away from
        if isinstance(bundle, PersisterHandle):
            self.handles.append(bundle)
        return bundle

    def _medium(self):
        medium = self.media[self.restores % len(self.media)]
        return medium

    def _loader(self):
        if self.loader_mode == 'custom':
            return self._custom
        return None

    def _on_entered(self, proc, hook, from_state):
        state = proc.state.value
        if state not in ('running', 'waiting'):
            return
        self.boundary += 1
        if self.last_handle is not None and self.lagging is None and self.boundary in self.lose_at:
            # lost without a checkpoint of its own: back to the checkpoint it came from
            self.lose_at.remove(self.boundary)
            handle = self.last_handle
            del self.world.events[handle.mark['events']:]
            del self.world.program_errors[handle.mark['errors']:]
            self.boundary = handle.mark['boundary']
            self.pending_bundle = handle
            self.world.rec('crash', self.boundary, 'lost-again', self._medium())
            raise SimCrash()
        if self.lagging is not None:
            handle = self.lagging['bundle']
            if isinstance(handle, PersisterHandle) and handle.tag is not None:
                try:
                    handle.persister.save_checkpoint(proc)
                    self.world.rec('latest_saved', self.boundary)
                except SimError:
                    raise
                except Exception as exc:  # noqa: BLE001
                    self.world.rec('unsavable', self.boundary, type(exc).__name__)
            self.lagging['remaining'] -= 1
            if self.lagging['remaining'] <= 0:
                self._abandon_lagging()
        if self.boundary in self.pauses:
            self.pauses.discard(self.boundary)
            proc.pause(f'paused at boundary {self.boundary}')
        self._maybe_crash(proc)

    def _maybe_crash(self, proc):
        remaining = self.crashes.get(self.boundary, 0)
        if remaining <= 0:
            return
        self.crashes[self.boundary] = remaining - 1
        try:
            self.pending_bundle = self._save(proc, self.tags[self.restores % len(self.tags)])
        except SimError:
            raise
        except Exception as exc:  # noqa: BLE001 - "cannot be saved" point: skip the crash, count it
            self.unsavable += 1
            self.world.rec('unsavable', self.boundary, type(exc).__name__)
            return
        self.crash_states.append(proc.state.value)
        if isinstance(self.pending_bundle, PersisterHandle):
            self.pending_bundle.mark = {'events': len(self.world.events), 'boundary': self.boundary,
                                        'errors': len(self.world.program_errors)}
        if self.lagging is not None and self.boundary not in self.lag:
            self.lagging = None  # a newer checkpoint supersedes the one the instance was running away from
        lag = self.lag.pop(self.boundary, 0)
        if lag > 0 and self.lagging is None:
            # the checkpoint is written, the instance runs on for a while
            bundle, self.pending_bundle = self.pending_bundle, None
            self.world.rec('checkpoint', self.boundary, proc.state.value, self._medium(), lag)
            self.lagging = {'bundle': bundle, 'events': len(self.world.events), 'boundary': self.boundary, 'remaining': lag,
                            'errors': len(self.world.program_errors)}
            return
        self.world.rec('crash', self.boundary, proc.state.value, self._medium())
        raise SimCrash()

    def _abandon_lagging(self, raise_crash=True):
        """The instance dies now; what survives is the checkpoint written `lag` boundaries ago."""
        lagging, self.lagging = self.lagging, None
        del self.world.events[lagging['events']:]  # what the lost instance did since is not part of the history
        del self.world.program_errors[lagging['errors']:]
        self.pending_bundle = lagging['bundle']
        self.boundary = lagging['boundary']
        self.world.rec('crash', self.boundary, 'lagged', self._medium())
        if raise_crash:
            raise SimCrash()

    def _in_user_code(self, proc, site, count):
        if not site.startswith('step:') or getattr(proc, '_sim_label', None) != 'p':
            return
        self.step_ordinal += 1
        if self.step_ordinal in self.pause_in_step:
            self.world.rec('pause_in_step', self.step_ordinal)
            proc.pause(f'paused from inside step execution {self.step_ordinal}')

    def _paused_notification(self, proc, event='paused'):
        if getattr(proc, '_sim_label', None) != 'p':
            return
        if event == 'played':
            # the other notification at which a deployment writes its checkpoint: the process has just been un-paused
            self.played_ordinal += 1
            if self.played_ordinal not in self.crash_on_played:
                return
            ordinal = self.played_ordinal
        else:
            self.paused_ordinal += 1
            if self.paused_ordinal not in self.crash_on_paused:
                return
            ordinal = self.paused_ordinal
        try:
            self.pending_bundle = self._save(proc)
        except SimError:
            raise
        except Exception as exc:  # noqa: BLE001
            self.unsavable += 1
            self.world.rec('unsavable', f'{event}#{ordinal}', type(exc).__name__)
            return
        self.crash_states.append(f'{event}-notification:' + proc.state.value)
        self.world.rec('crash', f'{event}#{ordinal}', f'{event}-notification:' + proc.state.value, self._medium())
        raise SimCrash()

    def _on_exiting(self, proc, hook, next_state):
        state = proc.state.value
        if state not in ('running', 'waiting'):
            return
        self.exit_ordinal += 1
        if self.exit_ordinal not in self.crash_on_exit:
            return
        try:
            self.pending_bundle = self._save(proc)
        except SimError:
            raise
        except Exception as exc:  # noqa: BLE001
            self.unsavable += 1
            self.world.rec('unsavable', f'exit#{self.exit_ordinal}', type(exc).__name__)
            return
        self.crash_states.append('exit:' + state)
        self.world.rec('crash', f'exit#{self.exit_ordinal}', 'exit:' + state, self._medium())
        raise SimCrash()

    def _attach(self, proc):
        self.incarnations += 1
        proc._sim_label = 'p'
        if self.crash_on_exit:
            proc.add_state_event_callback(self.plumpy.base.state_machine.StateEventHook.EXITING_STATE, self._on_exiting)
        if self.crash_on_paused or self.crash_on_played:
            from . import listeners

            listeners.PAUSED_HOOK[0] = self._paused_notification
            proc.add_process_listener(listeners.CheckpointOnPaused())
        proc.add_state_event_callback(self.plumpy.base.state_machine.StateEventHook.ENTERED_STATE, self._on_entered)

    def run(self):
        plumpy = self.plumpy
        loop = seams.new_loop(max_ticks=20000)
        if self.build is not None:
            cls = self.build(self.program, self.world, plumpy)
        elif self.program.get('kind') == 'workchain':
            from . import wcprograms

            cls = wcprograms.build_workchain_class(self.program, self.world, plumpy)
        else:
            cls = programs.build_process_class(self.program, self.world, plumpy, hooks=False, record_calls=False)
        self.cls = cls
        self._custom = make_custom_loader(plumpy) if self.loader_mode == 'custom' else None
        proc = cls(inputs=self.program.get('inputs'), loop=loop)
        self._attach(proc)
        # boundary 0: right after construction
        try:
            self._maybe_crash(proc)
        except SimCrash:
            pass
        for _ in range(self.max_rounds):
            if self.pending_bundle is not None:
                # the old instance and its loop are abandoned; continue from the bundle in a fresh loop
                self.sim_time += loop.time()
                self.ticks += loop.tick
                bundle, self.pending_bundle = self.pending_bundle, None
                self.last_handle = bundle if isinstance(bundle, PersisterHandle) and hasattr(bundle, 'mark') else None
                loop.hooks = None
                loop = seams.new_loop(max_ticks=20000)
                if self.detached:
                    import asyncio

                    from .loop import SimLoop

                    if self.other_loop is None:
                        self.other_loop = SimLoop(max_ticks=10)
                    asyncio.set_event_loop(self.other_loop)
                try:
                    proc = load(bundle, loop, self._loader())
                except SimError:
                    raise
                except Exception as exc:  # noqa: BLE001 - a checkpoint that was written cannot be loaded: a verdict, not a harness error
                    self.load_error = exc
                    self.world.rec('load_failed', type(exc).__name__)
                    break
                self.restores += 1
                self._attach(proc)
                self.world.rec('restored', proc.state.value)
                # crash again at the same boundary before any progress, if asked to
                try:
                    self._maybe_crash(proc)
                except SimCrash:
                    continue
            task = self.task = loop.create_task(proc.step_until_terminated())
            with loop.running():
                while True:
                    try:
                        while loop.step_once():
                            pass
                    except TickLimit as exc:
                        # programs here take a few dozen handles: thousands mean the process does not come to rest
                        self.runaway = exc
                        self.world.rec('runaway')
                        break
                    if self.pending_bundle is None and self.lagging is not None and (proc.has_terminated() or task.done()):
                        self._abandon_lagging(raise_crash=False)  # it got as far as terminating before it was lost
                    if self.pending_bundle is not None or proc.has_terminated():
                        if self.pending_bundle is None and proc.paused:
                            # a pause requested during the last step is carried out with the transition into the terminal
                            # state: whoever paused plays again (which is what restores the status text)
                            try:
                                proc.play()
                            except SimCrash:
                                continue
                        break
                    if proc.paused:
                        if self.boundary in self.crash_paused:
                            # checkpoint the paused process, abandon it (its stepper stays blocked for ever), continue
                            # from the bundle: the restored process is paused and has to be played
                            self.crash_paused.discard(self.boundary)
                            try:
                                self.pending_bundle = self._save(proc)
                                self.crash_states.append('paused:' + proc.state.value)
                                self.world.rec('crash', self.boundary, 'paused:' + proc.state.value, self._medium())
                                break
                            except SimError:
                                raise
                            except Exception as exc:  # noqa: BLE001
                                self.unsavable += 1
                                self.world.rec('unsavable', self.boundary, type(exc).__name__)
                        try:
                            proc.play()
                        except SimCrash:
                            break  # the checkpoint was written from the 'played' notification: continue from it
                    elif proc.state.value == 'waiting' and not task.done():
                        if proc._state is self.last_woken_state:
                            # this very wait was resumed already, the process has come to rest (and been played) since
                            self.resume_lost = proc.state.value
                            self.world.rec('resume_lost', self.wake_ordinal)
                            break
                        self.last_woken_state = proc._state
                        self.wake_ordinal += 1
                        try:
                            if self.wake_ordinal in self.pause_at_resume:
                                self.world.rec('pause_at_resume', self.wake_ordinal, repr(proc.pause('before-resume'))[:12])
                            if not self._wake(proc):
                                break
                        except SimError:
                            raise
                        except Exception as exc:  # noqa: BLE001 - resume() of a waiting process raised: a verdict
                            self.resume_error = exc
                            self.world.rec('resume_failed', type(exc).__name__)
                            break
                    else:
                        break
            if self.pending_bundle is None or self.runaway is not None:
                break
        self.proc = proc
        self.loop = loop
        self.sim_time += loop.time()
        self.ticks += loop.tick
        return proc

    def _wake(self, proc):
        trace = getattr(proc, '_trace', None)
        if trace is None:
            return False
        programs.apply_trace_resume(proc)
        return True

    def close(self):
        if self.other_loop is not None:
            self.other_loop.close()
        for handle in self.handles:
            handle.discard()
        if self.crash_on_paused or self.crash_on_played:
            from . import listeners

            listeners.PAUSED_HOOK[0] = None
        seams.reset_world()

# -*- coding: utf-8 -*-
"""Canonical forms used to compare bundles and the observable state of processes."""
import asyncio
import uuid

from . import programs


def canon(value, drop_traceback=True):
    """Canonical, order-independent, JSON-like form of a bundle (or anything found inside one)."""
    if isinstance(value, dict):
        out = {}
        for key, sub in value.items():
            if drop_traceback and key == 'traceback':
                continue
            out[str(key)] = canon(sub, drop_traceback)
        return {k: out[k] for k in sorted(out)}
    if isinstance(value, (set, frozenset)):
        return ['<set>'] + sorted((canon(v, drop_traceback) for v in value), key=repr)
    if isinstance(value, (list, tuple)):
        return [canon(v, drop_traceback) for v in value]
    if isinstance(value, BaseException):
        return ['<exc>', type(value).__name__, canon(list(value.args), drop_traceback)]
    if isinstance(value, uuid.UUID):
        return ['<uuid>', str(value)]
    if isinstance(value, (str, int, float, bool)) or value is None:
        return value
    if isinstance(value, type):
        return ['<class>', value.__name__]
    if asyncio.isfuture(value):
        if not value.done():
            return ['<future>', 'pending']
        if value.cancelled():
            return ['<future>', 'cancelled']
        if value.exception() is not None:
            return ['<future>', 'exception', canon(value.exception())]
        return ['<future>', 'result', canon(value.result())]
    if hasattr(value, 'items') and hasattr(value, 'keys'):  # Frozendict & co
        return canon(dict(value.items()), drop_traceback)
    if hasattr(value, '__dict__'):
        return ['<obj>', type(value).__name__, canon({k: v for k, v in vars(value).items()}, drop_traceback)]
    return ['<repr>', repr(value)]


def observable(proc):
    """What a user can read off a process through its public accessors."""
    out = {
        'pid': canon(proc.pid),
        'state': proc.state.value,
        'raw_inputs': canon(proc.raw_inputs),
        'inputs': canon(proc.inputs),
        'outputs': canon(proc.outputs),
        'status': proc.status,
        'paused': proc.paused,
        'creation_time': proc.creation_time,
        'terminated': proc.has_terminated(),
        'future': canon(proc.future()),
    }
    if hasattr(proc, 'ctx'):
        out['ctx'] = canon(dict(vars(proc.ctx)))
    if proc.has_terminated():
        state = proc.state.value
        if state == 'finished':
            out['result'] = canon(proc.result())
            out['successful'] = proc.successful()
            out['is_successful'] = proc.is_successful
        elif state == 'excepted':
            out['exception'] = canon(proc.exception())
        elif state == 'killed':
            out['killed_msg'] = canon(proc.killed_msg())
            out['killed'] = proc.killed()
    return out


def first_diff(a, b, path=''):
    """Path of the first difference between two canonical forms (or None)."""
    if type(a) is not type(b):
        return path or '/', a, b
    if isinstance(a, dict):
        for key in sorted(set(a) | set(b)):
            if key not in a or key not in b:
                return f'{path}/{key}', a.get(key, '<missing>'), b.get(key, '<missing>')
            diff = first_diff(a[key], b[key], f'{path}/{key}')
            if diff:
                return diff
        return None
    if isinstance(a, list):
        if len(a) != len(b):
            return f'{path}[len]', len(a), len(b)
        for index, (x, y) in enumerate(zip(a, b)):
            diff = first_diff(x, y, f'{path}[{index}]')
            if diff:
                return diff
        return None
    if a != b:
        return path or '/', a, b
    return None

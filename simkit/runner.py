# -*- coding: utf-8 -*-
"""Batch runner: seeds -> cases -> runs on all cores, evidence, known findings, minimisation, replay.

A check module (checks/cNN.py) provides::

    PROPERTY, LEVEL, RULE (str: how cases are generated and what makes one non-trivial)
    BUDGET = {'quick': (n_cases, wall_s), 'thorough': (n_cases, wall_s)}
    systematic(tier) -> list of cases (the stratified smallest strata; may be empty)
    random_case(rng, tier) -> case
    run(case) -> Result
    shrink(case) -> iterator over smaller candidate cases          (optional)
    COMPONENTS = {'real': [...], 'stub': [...]}, ASSUMPTIONS = [...]

Exit codes: 0 held on everything explored, 1 violation (VIOLATION line), 2 harness error.
"""
import collections
import concurrent.futures
import hashlib
import importlib
import json
import multiprocessing
import os
import random
import signal
import subprocess
import sys
import time
import traceback

VERIF = os.path.dirname(os.path.dirname(os.path.abspath(__file__)))
PYTHON = sys.executable
SEED_MULT = 1_000_003


class Violation:
    __slots__ = ('rule', 'signature', 'detail', 'case')

    def __init__(self, rule, signature, detail='', case=None):
        self.rule = rule
        self.signature = signature
        self.detail = detail
        self.case = case  # the specific sub-case that fails, when one generated case fans out into many runs

    def key(self):
        return (self.rule, self.signature)

    def as_dict(self):
        return {'rule': self.rule, 'signature': self.signature, 'detail': self.detail}


class Result:
    """Outcome of one simulated run."""

    def __init__(self):
        self.violations = []
        self.events = None  # event log (list of tuples) -> digest
        self.nontrivial = False
        self.counters = collections.Counter()  # fault kinds fired, probes hit, contexts...
        self.sim_time = 0.0
        self.ticks = 0
        self.runs = 1  # simulated executions this result stands for
        self.digests = None  # optional: set of digests of the individual non-trivial executions

    def violate(self, rule, signature, detail='', case=None):
        self.violations.append(Violation(rule, signature, str(detail)[:600], case))

    def digest(self):
        blob = json.dumps(self.events, sort_keys=True, default=repr).encode()
        return hashlib.blake2b(blob, digest_size=8).digest()


class HarnessTimeout(KeyboardInterrupt):
    """Raised by SIGALRM.  Derives from KeyboardInterrupt so that neither plumpy's broad ``except Exception`` clauses nor
    asyncio's task machinery swallow it (both re-raise KeyboardInterrupt)."""



def _alarm(signum, frame):
    raise HarnessTimeout('case exceeded its wall-clock cap')


def case_seed(base, index):
    return base * SEED_MULT + index


def load_check(prop):
    if VERIF not in sys.path:
        sys.path.insert(0, VERIF)
    return importlib.import_module(f'checks.{prop.lower()}')


def make_case(mod, tier, base, index, n_sys, systematic):
    if index < n_sys:
        case = systematic[index]
        case = dict(case)
        case.setdefault('origin', f'systematic#{index}')
        return case
    seed = case_seed(base, index)
    rng = random.Random(seed)
    case = mod.random_case(rng, tier)
    case['origin'] = f'seed={seed}'
    return case


def _work(args):
    prop, tier, base, start, count, deadline, keep_samples = args
    mod = load_check(prop)
    systematic = mod.systematic(tier) if hasattr(mod, 'systematic') else []
    n_sys = len(systematic)
    out = {
        'n': 0,
        'digests': set(),
        'all_digests': 0,
        'counters': collections.Counter(),
        'sim_time': 0.0,
        'ticks': 0,
        'violations': {},
        'samples': [],
        'errors': [],
        'start': start,
    }
    signal.signal(signal.SIGALRM, _alarm)
    for index in range(start, start + count):
        if time.time() > deadline:
            break
        case = None
        try:
            signal.alarm(getattr(mod, 'CASE_WALL_S', 30))
            case = make_case(mod, tier, base, index, n_sys, systematic)
            result = mod.run(case)
            signal.alarm(0)
        except (Exception, HarnessTimeout) as exc:  # noqa: BLE001 - harness error, never a verdict
            signal.alarm(0)
            out['errors'].append({'index': index, 'error': f'{type(exc).__name__}: {exc}',
                                  'trace': traceback.format_exc()[-1500:], 'case': case})
            if len(out['errors']) > 5:
                break
            continue
        out['n'] += result.runs
        out['cases'] = out.get('cases', 0) + 1
        out['counters'].update(result.counters)
        out['sim_time'] += result.sim_time
        out['ticks'] += result.ticks
        if result.digests is not None:
            out['digests'] |= result.digests
        elif result.nontrivial:
            out['digests'].add(result.digest())
        if keep_samples and len(out['samples']) < keep_samples:
            out['samples'].append(case)
        for violation in result.violations:
            key = violation.key()
            failing = violation.case if violation.case is not None else case
            size = len(json.dumps(failing, default=repr))
            held = out['violations'].get(key)
            if held is None or size < held['size']:
                out['violations'][key] = {'size': size, 'case': failing, 'violation': violation.as_dict(),
                                          'count': (held['count'] if held else 0) + 1}
            else:
                held['count'] += 1
    return out


def load_known(prop):
    path = os.path.join(VERIF, 'known_findings.json')
    if not os.path.exists(path):
        return []
    with open(path) as handle:
        return [entry for entry in json.load(handle) if entry.get('property') == prop]


def match_known(known, violation):
    for entry in known:
        if entry.get('status') != 'known':
            continue
        if entry.get('rule') == violation['rule'] and entry.get('signature') == violation['signature']:
            return entry
    return None


def run_case_in_process(mod, case):
    result = mod.run(case)
    return result


def guarded_run(mod, case, wall_s=60):
    """mod.run under an alarm: a candidate that hangs (a synchronous endless loop in the code under test is not bounded by
    the loop's handle counter) must not hang the reporting process."""
    previous = signal.signal(signal.SIGALRM, _alarm)
    signal.alarm(wall_s)
    try:
        return mod.run(case)
    finally:
        signal.alarm(0)
        signal.signal(signal.SIGALRM, previous)


def minimise(mod, case, target, budget_s=120):
    """Greedy ddmin-style shrinking while the same (rule, signature) persists."""
    if not hasattr(mod, 'shrink'):
        return case
    deadline = time.time() + budget_s

    def fails(candidate):
        try:
            result = guarded_run(mod, candidate, 30)
        except (Exception, HarnessTimeout):  # noqa: BLE001
            return False
        return any(v.rule == target['rule'] and v.signature == target['signature'] for v in result.violations)

    current = case
    improved = True
    while improved and time.time() < deadline:
        improved = False
        for candidate in mod.shrink(current):
            if time.time() > deadline:
                break
            if fails(candidate):
                current = candidate
                improved = True
                break
    return current


def write_replay(prop, case, violation, digest):
    directory = os.path.join(VERIF, 'replays', prop)
    os.makedirs(directory, exist_ok=True)
    tag = hashlib.blake2b(json.dumps([case, violation['rule'], violation['signature']], sort_keys=True,
                                     default=repr).encode(), digest_size=5).hexdigest()
    safe_rule = ''.join(ch if ch.isalnum() else '_' for ch in violation['rule'])
    path = os.path.join(directory, f'{prop}-{safe_rule}-{tag}.json')
    with open(path, 'w') as handle:
        json.dump({'property': prop, 'rule': violation['rule'], 'signature': violation['signature'],
                   'detail': violation['detail'], 'digest': digest.hex(), 'case': case}, handle, indent=1,
                  default=repr)
    return path


def replay_file(mod, path, quiet=False):
    with open(path) as handle:
        data = json.load(handle)
    result = mod.run(data['case'])
    same = [v for v in result.violations if v.rule == data['rule'] and v.signature == data['signature']]
    digest = result.digest().hex()
    if not quiet:
        print(f'replay {path}')
        for violation in result.violations:
            print(f'  violation rule={violation.rule} signature={violation.signature}\n    {violation.detail}')
        print(f'  digest={digest} expected={data.get("digest")}')
    if same:
        ok_digest = data.get('digest') in (None, digest)
        print(f'REPRODUCED property={data["property"]} rule={data["rule"]} signature={data["signature"]} '
              f'digest_match={ok_digest}')
        return 1
    print(f'NOT-REPRODUCED property={data["property"]} rule={data["rule"]}')
    return 0


def fresh_replay(prop, path):
    """Replay in a fresh interpreter; returns True if it reproduces with the same digest."""
    env = dict(os.environ)
    env['PYTHONHASHSEED'] = '1'  # deliberately another hash seed than the search used
    proc = subprocess.run([PYTHON, os.path.join(VERIF, 'check'), prop, '--replay', path],
                          capture_output=True, text=True, env=env, timeout=300)
    reproduced = proc.returncode == 1 and 'REPRODUCED property=' in proc.stdout and 'NOT-REPRODUCED' not in proc.stdout
    return reproduced, 'digest_match=True' in proc.stdout, proc.stdout[-2000:] + proc.stderr[-2000:]


def write_evidence(mod, prop, tier, base, wall, stats, violations_n, extra=None):
    import jsonschema

    coverage = {
        'evaluations': stats['n'],
        'distinct_nontrivial': len(stats['digests']),
        'rule': mod.RULE,
        'samples': stats['samples'][:3],
        'runs_per_hour': int(stats['n'] / wall * 3600) if wall > 0 else 0,
        'seeds_per_hour': int(stats['n'] / wall * 3600) if wall > 0 else 0,
        'simulated_seconds': round(stats['sim_time'], 3),
        'loop_handles_run': stats['ticks'],
        'workers': stats.get('workers'),
        'systematic_cases': stats.get('n_sys', 0),
        'fault_and_probe_counters': dict(sorted(stats['counters'].items())),
        'zero_cells': sorted(k for k in getattr(mod, 'EXPECTED_COUNTERS', []) if not stats['counters'].get(k)),
        'components': getattr(mod, 'COMPONENTS', {}),
        'harness_errors': len(stats['errors']),
        'known_findings_hit': stats.get('known_hit', []),
    }
    if extra:
        coverage.update(extra)
    evidence = {
        'property_id': prop,
        'tier': tier,
        'seed': base,
        'level': mod.LEVEL,
        'coverage': coverage,
        'assumptions': getattr(mod, 'ASSUMPTIONS', []),
        'wall_s': round(wall, 2),
        'violations': violations_n,
    }
    with open('/root/.vp/EVIDENCE.schema.json') as handle:
        schema = json.load(handle)
    # make sure it is JSON-clean before validating
    evidence = json.loads(json.dumps(evidence, default=repr))
    jsonschema.validate(evidence, schema)
    if os.environ.get('VERIF_EVIDENCE') == '0':
        return evidence  # (runs against scratch trees, e.g. the seeded-change matrix, leave the evidence files alone)
    directory = os.path.join(VERIF, 'evidence')
    os.makedirs(directory, exist_ok=True)
    with open(os.path.join(directory, f'{prop}.json'), 'w') as handle:
        json.dump(evidence, handle, indent=1, sort_keys=True)
    return evidence


def run_batch(prop, tier, base, workers=None, n_cases=None, wall_s=None):
    mod = load_check(prop)
    t0 = time.time()
    budget_n, budget_wall = mod.BUDGET[tier]
    if n_cases is not None:
        budget_n = n_cases
    if wall_s is not None:
        budget_wall = wall_s
    if os.environ.get('VERIF_BUDGET_S') and tier == 'thorough':
        budget_wall = float(os.environ['VERIF_BUDGET_S'])
    workers = workers or int(os.environ.get('VERIF_WORKERS', 0)) or min(16, os.cpu_count() or 1)
    print(f'check {prop} tier={tier} VERIF_SEED={base} workers={workers} budget={budget_n} cases / {budget_wall}s',
          flush=True)
    n_sys = len(mod.systematic(tier)) if hasattr(mod, 'systematic') else 0
    deadline = t0 + budget_wall
    chunk = max(20, min(getattr(mod, 'CHUNK', 400), budget_n // (workers * 4) or 20))
    tasks = []
    start = 0
    while start < budget_n:
        count = min(chunk, budget_n - start)
        tasks.append((prop, tier, base, start, count, deadline, 2 if start == 0 or start >= n_sys and len(tasks) < 3 else 0))
        start += count
    stats = {'n': 0, 'digests': set(), 'counters': collections.Counter(), 'sim_time': 0.0, 'ticks': 0,
             'violations': {}, 'samples': [], 'errors': [], 'workers': workers, 'n_sys': n_sys}
    context = multiprocessing.get_context('fork')
    hard_deadline = deadline + 120
    with concurrent.futures.ProcessPoolExecutor(max_workers=workers, mp_context=context) as pool:
        futures = [pool.submit(_work, task) for task in tasks]
        try:
            for future in concurrent.futures.as_completed(futures, timeout=max(5, hard_deadline - time.time())):
                out = future.result()
                stats['n'] += out['n']
                stats['digests'] |= out['digests']
                stats['counters'].update(out['counters'])
                stats['sim_time'] += out['sim_time']
                stats['ticks'] += out['ticks']
                stats['errors'].extend(out['errors'])
                if out['start'] == 0:
                    stats['samples'] = out['samples'] + stats['samples']
                else:
                    stats['samples'].extend(out['samples'])
                for key, held in out['violations'].items():
                    mine = stats['violations'].get(key)
                    if mine is None:
                        stats['violations'][key] = held
                    else:
                        count = mine['count'] + held['count']
                        if held['size'] < mine['size']:
                            stats['violations'][key] = held
                        stats['violations'][key]['count'] = count
        except concurrent.futures.TimeoutError:
            stats['errors'].append({'error': 'batch exceeded its hard wall-clock deadline', 'index': None})
            for future in futures:
                future.cancel()
            for process in list(getattr(pool, '_processes', {}).values()):
                process.terminate()
        except concurrent.futures.process.BrokenProcessPool as exc:
            stats['errors'].append({'error': f'worker died: {exc}', 'index': None})

    known = load_known(prop)
    new_violations = []
    known_hit = []
    for key in sorted(stats['violations']):
        held = stats['violations'][key]
        entry = match_known(known, held['violation'])
        if entry is not None:
            known_hit.append(f"{entry['rule']}:{entry['signature']}")
            print(f"KNOWN-FINDING: property={prop} {entry['what']} [rule={entry['rule']} "
                  f"signature={entry['signature']} hits={held['count']}]", flush=True)
        else:
            new_violations.append(held)
    stats['known_hit'] = known_hit
    # expected-but-absent known findings are only worth a note
    for entry in known:
        if entry.get('status') == 'known' and f"{entry['rule']}:{entry['signature']}" not in known_hit:
            print(f"note: known finding not reproduced in this run: rule={entry['rule']} "
                  f"signature={entry['signature']}", flush=True)

    exit_code = 0
    reported = []
    # report at most a handful of distinct violation classes, smallest first
    for held in sorted(new_violations, key=lambda h: h['size'])[:int(os.environ.get('VERIF_MAX_REPORTS', 4))]:
        violation = held['violation']
        case = held['case']
        try:
            small = minimise(mod, case, violation, budget_s=90)
            result = guarded_run(mod, small)
            same = [v for v in result.violations if v.rule == violation['rule'] and v.signature == violation['signature']]
            if not same:  # should not happen: minimise only keeps failing candidates
                small, result = case, guarded_run(mod, case)
                same = [v for v in result.violations if v.key() == (violation['rule'], violation['signature'])]
            if not same:
                stats['errors'].append({'error': f'violation did not reproduce in-process: {violation}', 'index': None})
                continue
            final = same[0].as_dict()
            path = write_replay(prop, small, final, result.digest())
            ok, same_digest, output = fresh_replay(prop, path)
            if not ok:
                stats['errors'].append({'error': f'replay {path} did not reproduce in a fresh interpreter', 'index': None,
                                        'trace': output})
                continue
            print(f'VIOLATION property={prop} replay={path}', flush=True)
            if not same_digest:
                print('  note: the violation reproduces in a fresh interpreter but the event-log digest differs: some '
                      'nondeterminism of the code under test is outside the simulator\'s seams', flush=True)
            print(f'  rule={final["rule"]} signature={final["signature"]} occurrences={held["count"]}\n'
                  f'  {final["detail"]}', flush=True)
            reported.append(path)
            exit_code = 1
        except (Exception, HarnessTimeout) as exc:  # noqa: BLE001
            stats['errors'].append({'error': f'while reporting: {type(exc).__name__}: {exc}',
                                    'trace': traceback.format_exc()[-1500:], 'index': None})
    if len(new_violations) > len(reported) and reported:
        print(f'  ({len(new_violations)} distinct violation classes in total; first {len(reported)} reported)')

    wall = time.time() - t0
    extra = {'distinct_violation_classes': len(new_violations)}
    try:
        if stats['n'] > 0:
            write_evidence(mod, prop, tier, base, wall, stats, len(new_violations), extra)
    except Exception as exc:  # noqa: BLE001
        stats['errors'].append({'error': f'evidence: {type(exc).__name__}: {exc}', 'index': None})
    print(f'{prop}: {stats["n"]} runs ({n_sys} systematic), {len(stats["digests"])} distinct non-trivial, '
          f'{stats["sim_time"]:.0f} simulated s, {wall:.1f}s wall, {int(stats["n"] / max(wall, 1e-9) * 3600)} runs/h',
          flush=True)
    if stats['errors']:
        for error in stats['errors'][:5]:
            print(f'HARNESS-ERROR {error.get("error")} (index {error.get("index")})\n{error.get("trace", "")}',
                  file=sys.stderr, flush=True)
        if exit_code == 0:
            exit_code = 2
    if exit_code == 0 and stats['n'] == 0:
        print('HARNESS-ERROR no case was run', file=sys.stderr)
        exit_code = 2
    return exit_code


def main(argv=None):
    argv = list(sys.argv[1:] if argv is None else argv)
    import argparse

    parser = argparse.ArgumentParser()
    parser.add_argument('property')
    parser.add_argument('--tier', default=os.environ.get('VERIF_TIER', 'quick'), choices=['quick', 'thorough'])
    parser.add_argument('--replay')
    parser.add_argument('--cases', type=int)
    parser.add_argument('--wall', type=float)
    parser.add_argument('--workers', type=int)
    args = parser.parse_args(argv)
    prop = args.property.upper()
    if VERIF not in sys.path:
        sys.path.insert(0, VERIF)
    os.chdir(VERIF)
    if args.replay:
        mod = load_check(prop)
        return replay_file(mod, args.replay)
    base = int(os.environ.get('VERIF_SEED', '0') or 0)
    return run_batch(prop, args.tier, base, workers=args.workers, n_cases=args.cases, wall_s=args.wall)

# -*- coding: utf-8 -*-
"""Seams: put every source of nondeterminism plumpy meets behind something the simulator owns.

* plumpy is imported from ``$VERIF_REPO/src`` (default /repo/src) so checks see the working tree;
* ``asyncio.Task``/``asyncio.Future`` are switched to the pure-Python classes by the very function
  ``nest_asyncio`` uses in production (``_patch_asyncio``) - plumpy is imported first, as in
  production, so the classes it derives from asyncio futures are whatever production gives it;
* ``plumpy.processes.time`` and ``plumpy.processes.uuid`` are replaced by shims reading the
  current SimLoop's virtual clock and a per-run counter;
* module-global state is reset between cases.
"""
import asyncio
import gc
import logging
import os
import sys
import types
import uuid as _uuid

REPO = os.environ.get('VERIF_REPO', '/repo')
_SRC = os.path.join(REPO, 'src')

_installed = False
_state = types.SimpleNamespace(loop=None, uuid_counter=0, epoch=1_700_000_000.0)


def install():
    """Import plumpy from the tree under test and install the seams (idempotent)."""
    global _installed
    if _installed:
        return sys.modules['plumpy']
    if not os.path.isdir(os.path.join(_SRC, 'plumpy')):
        raise RuntimeError(f'no plumpy sources under {_SRC}')
    # make sure the tree under test wins over any installed copy
    sys.path.insert(0, _SRC)
    for name in list(sys.modules):
        if name == 'plumpy' or name.startswith('plumpy.'):
            raise RuntimeError('plumpy was imported before the seams were installed')
    logging.disable(logging.CRITICAL)  # plumpy logs errors on purpose in many explored paths
    # abandoned instances (simulated crashes, worker restarts) are destroyed half-run: their destructor-time complaints
    # ("Exception ignored in: <coroutine ...>") are noise about objects no run looks at any more
    sys.unraisablehook = lambda unraisable: None
    import warnings

    warnings.filterwarnings('ignore', category=RuntimeWarning, message='coroutine .* was never awaited')
    import plumpy  # noqa: F401

    where = os.path.realpath(plumpy.__file__)
    if not where.startswith(os.path.realpath(_SRC)):
        raise RuntimeError(f'plumpy imported from {where}, expected under {_SRC}')

    import nest_asyncio

    nest_asyncio._patch_asyncio()  # pure-Python Task/Future, as in production under nest_asyncio

    _install_clock_and_id_shims()
    _install_thread_emulation()
    _installed = True
    _use_base_classes_first(plumpy)
    return plumpy


def _use_base_classes_first(plumpy):
    """Somebody has used the library's own classes before any generated subclass exists (a placeholder, a test double): every
    class builds its own table of states whatever its ancestors did before.  Done once per interpreter - also in the one
    that replays - so that what a case sees does not depend on which cases ran before it."""
    loop = new_loop(max_ticks=100)
    try:
        for cls in (plumpy.Process,):
            placeholder = cls(loop=loop)
            placeholder.close()
    finally:
        reset_world()


def _install_thread_emulation():
    """Code that runs in the communicator's thread in production (SimLoop 'foreign' mode) has no current event loop:
    asyncio.get_event_loop() - hence asyncio.Future() without a loop - raises there, as it does in a thread that never
    set one."""
    from . import loop as loop_module

    # the event loop policy is the seam every spelling goes through: asyncio.get_event_loop(), nest_asyncio's replacement
    # of it, and the C implementation behind asyncio.Future() / asyncio.ensure_future()
    class SimPolicy(asyncio.DefaultEventLoopPolicy):
        def get_event_loop(self):
            if loop_module.FOREIGN[0] > 0:
                raise RuntimeError("There is no current event loop in thread 'communicator-thread' (simulated).")
            return super().get_event_loop()

    asyncio.set_event_loop_policy(SimPolicy())


def _install_clock_and_id_shims():
    """plumpy reads the wall clock and draws uuids in plumpy.processes (time.time(), uuid.uuid4()); shim whatever
    spelling of those imports the tree under test uses, in every plumpy module."""
    import time as real_time
    import uuid as real_uuid

    for name, module in list(sys.modules.items()):
        if not (name == 'plumpy' or name.startswith('plumpy.')) or module is None:
            continue
        namespace = vars(module)
        if namespace.get('time') is real_time:
            namespace['time'] = _TimeShim()
        elif namespace.get('time') is real_time.time:
            namespace['time'] = _TimeShim.time
        if namespace.get('uuid') is real_uuid and name.endswith('processes'):
            namespace['uuid'] = _UuidShim()
        if namespace.get('uuid4') is real_uuid.uuid4:
            namespace['uuid4'] = _UuidShim.uuid4


class _TimeShim:
    @staticmethod
    def time():
        loop = _state.loop
        return _state.epoch + (loop.time() if loop is not None else 0.0)


class _UuidShim:
    UUID = _uuid.UUID

    @staticmethod
    def uuid4():
        _state.uuid_counter += 1
        return _uuid.UUID(int=(0x5EED << 96) | _state.uuid_counter)


def new_loop(max_ticks=20000):
    """Create a fresh SimLoop and make it *the* loop (current, default for futures)."""
    from .loop import SimLoop

    loop = SimLoop(max_ticks=max_ticks)
    asyncio.set_event_loop(loop)
    _state.loop = loop
    return loop


def current_loop():
    return _state.loop


def reset_world():
    """Reset process-global state that could leak from one case into the next."""
    import plumpy.loaders as loaders

    old = _state.loop
    if old is not None:
        old.close()
    _state.loop = None
    _state.uuid_counter = 0
    loaders.set_object_loader(None)
    from . import generated

    generated.clear()


_case_counter = 0


def begin_case():
    global _case_counter
    _case_counter += 1
    gc.disable()


def end_case():
    gc.enable()
    if _case_counter % 64 == 0:
        gc.collect()

# -*- coding: utf-8 -*-
"""SimCommunicator: an in-process kiwipy communicator whose deliveries are events of the simulated loop.

It re-implements, from kiwipy's RMQ sources, the part of the transport the properties depend on:

* RPC: ``rpc_send`` returns a kiwipy future for the reply; the request is delivered to the subscriber registered under
  the recipient id as a separate loop event (after a seeded virtual delay, possibly duplicated or reordered); if the
  subscriber returns a future the reply resolves to ANOTHER future ("pending" response) which later resolves to the
  outcome, level by level, exactly like ``RmqSubscriber._send_future_response`` / ``response_to_future`` (this is why
  plumpy's RemoteProcessController awaits twice); exceptions come back as ``RemoteException``; an unknown recipient gives
  ``UnroutableError``.
* broadcast: every subscriber gets every message (BroadcastFilter decides); ``broadcast_send`` can be made to raise the
  errors plumpy tolerates, at a chosen send index.
* tasks: delivered to the first task subscriber that does not reject, reply as for RPC.
* subscriber registration can be made to time out.

In production the subscriber callbacks run in the communicator thread; here "the communicator thread" is the environment:
deliveries are plain loop handles that belong to no process.
"""
import asyncio
import pickle
import sys

import kiwipy


class Net:
    """Decides when a message is delivered.  All choices are data (part of the case)."""

    def __init__(self, loop):
        self.loop = loop
        self.log = []  # (kind, detail) in delivery order
        self.held = None  # a delivery held back to be reordered with the next one
        self.counters = {'delivered': 0, 'duplicated': 0, 'reordered': 0, 'delayed': 0}

    def send(self, deliver, delay=0.0, duplicate=False, reorder=False):
        def fire():
            self.counters['delivered'] += 1
            deliver()

        if reorder and self.held is None:
            self.held = (fire, delay)
            self.counters['reordered'] += 1
            return
        self._schedule(fire, delay)
        if self.held is not None:
            held, held_delay = self.held
            self.held = None
            self._schedule(held, max(delay, held_delay))
        if duplicate:
            self.counters['duplicated'] += 1
            self._schedule(fire, delay * 2 + 0.25)

    def flush(self):
        if self.held is not None:
            held, held_delay = self.held
            self.held = None
            self._schedule(held, held_delay)

    def _schedule(self, fire, delay):
        if delay:
            self.counters['delayed'] += 1
            self.loop.call_later(delay, fire)
        else:
            self.loop.call_soon(fire)


def _isfuture(value):
    return isinstance(value, kiwipy.Future) or asyncio.isfuture(value)


def wire(obj):
    """What the receiving side gets: a value that went through a serialiser (new objects, equal values) - a real broker
    never hands over the sender's own objects.  Unpicklable payloads (none in the generated traffic) pass as they are."""
    try:
        return pickle.loads(pickle.dumps(obj))
    except Exception:  # noqa: BLE001
        return obj


class SimCommunicator(kiwipy.CommunicatorHelper):
    def __init__(self, loop):
        super().__init__()
        self.loop = loop
        self.net = Net(loop)
        self.sent_broadcasts = []  # (subject, sender, body) in the order the senders called broadcast_send
        self.broadcast_fault = None  # (send index, exception) -> raise from broadcast_send
        self.broadcast_faults_fired = 0
        self.subscribe_timeouts = set()  # {'rpc', 'broadcast'} -> registration raises kiwipy.TimeoutError
        self.subscribe_timeouts_fired = 0
        self.unsubscribe_timeouts = set()  # {'rpc', 'broadcast'} -> un-registration raises kiwipy.TimeoutError (nothing removed)
        self.unsubscribe_timeouts_fired = 0
        self.delivery_queue = []  # delivery options (delay/duplicate/reorder) for the next sends of the environment, FIFO
        self.rpc_deliveries = []  # (recipient, msg, routed?) in delivery order
        self.task_deliveries = []

    # -- registration (with injectable time-outs) --------------------------------------------------
    def add_rpc_subscriber(self, subscriber, identifier=None):
        if 'rpc' in self.subscribe_timeouts:
            self.subscribe_timeouts_fired += 1
            raise kiwipy.TimeoutError('injected: add_rpc_subscriber timed out')
        return super().add_rpc_subscriber(subscriber, identifier)

    def add_broadcast_subscriber(self, subscriber, identifier=None):
        if 'broadcast' in self.subscribe_timeouts and identifier is not None and not str(identifier).startswith('sim-'):
            self.subscribe_timeouts_fired += 1
            raise kiwipy.TimeoutError('injected: add_broadcast_subscriber timed out')
        return super().add_broadcast_subscriber(subscriber, identifier)

    def remove_rpc_subscriber(self, identifier):
        if 'rpc' in self.unsubscribe_timeouts:
            self.unsubscribe_timeouts_fired += 1
            raise kiwipy.TimeoutError('injected: remove_rpc_subscriber timed out')
        return super().remove_rpc_subscriber(identifier)

    def remove_broadcast_subscriber(self, identifier):
        if 'broadcast' in self.unsubscribe_timeouts and not str(identifier).startswith('sim-'):
            self.unsubscribe_timeouts_fired += 1
            raise kiwipy.TimeoutError('injected: remove_broadcast_subscriber timed out')
        return super().remove_broadcast_subscriber(identifier)

    def _next_options(self, explicit):
        if explicit:
            return dict(explicit)
        if self.delivery_queue:
            return dict(self.delivery_queue.pop(0))
        return {}

    # -- reply protocol ------------------------------------------------------------------------------
    def _respond(self, result, reply):
        """Mirror of RmqSubscriber._send_future_response + response_to_future on the caller side."""
        if _isfuture(result):
            inner = kiwipy.Future()
            reply.set_result(inner)  # "pending" response: the caller gets another future

            def on_done(done):
                if done.cancelled():
                    inner.cancel()
                    return
                exc = done.exception()
                if exc is not None:
                    inner.set_exception(kiwipy.RemoteException(str(exc)))
                else:
                    self._respond(done.result(), inner)

            if isinstance(result, kiwipy.Future):
                result.add_done_callback(on_done)
            else:
                result.add_done_callback(lambda fut: on_done(fut))
        else:
            reply.set_result(result)

    # -- RPC -----------------------------------------------------------------------------------------
    def rpc_send(self, recipient_id, msg, **opts):
        self._ensure_open()
        reply = kiwipy.Future()
        options = self._next_options(opts)

        def deliver():
            # (a broker routes by the textual form of the recipient: an integer or UUID pid finds the subscriber that was
            # registered under str(pid))
            subscriber = None
            if not self.is_closed():
                subscriber = self._rpc_subscribers.get(recipient_id) or self._rpc_subscribers.get(str(recipient_id))
            self.rpc_deliveries.append((recipient_id, msg, subscriber is not None))
            if subscriber is None:
                if not reply.done():
                    reply.set_exception(kiwipy.UnroutableError(f"Unknown rpc recipient '{recipient_id}'"))
                return
            try:
                with self.loop.foreign_thread():  # in production this call happens in the communicator's thread
                    result = subscriber(self, wire(msg))
            except Exception as exc:  # noqa: BLE001 - goes back to the caller as a RemoteException
                if not reply.done():
                    reply.set_exception(kiwipy.RemoteException(str(exc)))
                return
            if reply.done():
                return  # duplicate delivery: only the first response reaches the caller
            self._respond(result, reply)

        self.net.send(deliver, **options)
        return reply

    # -- broadcast -------------------------------------------------------------------------------------
    def broadcast_send(self, body, sender=None, subject=None, correlation_id=None, **opts):
        self._ensure_open()
        announcement = str(subject).startswith('state_changed')
        index = sum(1 for s in self.sent_broadcasts if str(s[0]).startswith('state_changed'))
        self.sent_broadcasts.append((subject, sender, body))
        if announcement and self.broadcast_fault is not None and self.broadcast_fault[0] == index:
            self.broadcast_faults_fired += 1
            raise self.broadcast_fault[1]
        options = self._next_options(opts) if not str(subject).startswith('state_changed') else {}

        def deliver():
            if self.is_closed():
                return
            for subscriber in list(self._broadcast_subscribers.values()):
                try:
                    with self.loop.foreign_thread():
                        subscriber(self, body=wire(body), sender=wire(sender), subject=wire(subject),
                                   correlation_id=correlation_id)
                except Exception:  # noqa: BLE001 - as kiwipy: logged, other subscribers still get it
                    pass

        self.net.send(deliver, **options)
        return True

    # -- tasks -----------------------------------------------------------------------------------------
    def task_send(self, task, no_reply=False, **opts):
        self._ensure_open()
        reply = kiwipy.Future()
        options = self._next_options(opts)

        def deliver():
            self.task_deliveries.append(task)
            for subscriber in list(self._task_subscribers.values()):
                try:
                    with self.loop.foreign_thread():
                        result = subscriber(self, wire(task))
                except kiwipy.TaskRejected:
                    continue
                except Exception:  # noqa: BLE001
                    if not reply.done():
                        reply.set_exception(kiwipy.RemoteException(''.join(map(str, sys.exc_info()[1:2]))))
                    return
                if not reply.done():
                    self._respond_task(result, reply)
                return
            if not reply.done():
                reply.set_exception(kiwipy.TaskRejected('no subscriber accepted the task'))

        self.net.send(deliver, **options)
        if no_reply:
            # the sender only learns that the task was published (kiwipy: a future that resolves to None)
            published = kiwipy.Future()
            published.set_result(None)
            return published
        return reply

    def _respond_task(self, result, reply):
        """Task replies: a rejection raised later by the (asynchronous) subscriber comes back as TaskRejected."""
        if _isfuture(result):
            inner = kiwipy.Future()
            reply.set_result(inner)

            def on_done(done):
                if done.cancelled():
                    inner.cancel()
                    return
                exc = done.exception()
                if exc is not None:
                    if isinstance(exc, kiwipy.TaskRejected):
                        inner.set_exception(exc)
                    else:
                        wrapped = kiwipy.RemoteException(str(exc))
                        wrapped.__cause__ = exc
                        inner.set_exception(wrapped)
                else:
                    self._respond_task(done.result(), inner)

            result.add_done_callback(on_done)
        else:
            reply.set_result(result)


def unwrap(value, depth=8):
    """Final outcome of a (possibly nested) future as seen at the end of a run: ('value', v) | ('exception', type name,
    text) | ('cancelled',) | ('pending', levels)."""
    levels = 0
    while _isfuture(value) and levels < depth:
        if not value.done():
            return ('pending', levels)
        if value.cancelled():
            return ('cancelled',)
        exc = value.exception()
        if exc is not None:
            return ('exception', type(exc).__name__, str(exc)[:120])
        value = value.result()
        levels += 1
    return ('value', value)

# -*- coding: utf-8 -*-
"""SimLoop: a deterministic, virtual-time, re-entrant asyncio event loop.

* one handle per ``step_once()``; the environment (``hooks.before_handle``) is called between
  any two handles, which is how the simulator places external requests, wake-ups, messages,
  faults and crashes;
* FIFO order of the ready queue is never permuted (asyncio guarantees it, code may rely on it);
* time is virtual: when nothing is ready the clock jumps to the next timer;
* re-entrant exactly like a ``nest_asyncio``-patched loop (plumpy's production configuration);
* no selector, no self-pipe, no threads, no real clock.
"""
import asyncio
import heapq
from asyncio import events, tasks


FOREIGN = [0]  # > 0 while any loop is in 'foreign thread' mode


class SimError(Exception):
    """Harness-level failure (never a verdict about the code under test)."""


class TickLimit(SimError):
    pass


class NestedDeadlock(SimError):
    """A nested run_until_complete() can never complete: nothing is runnable."""


class SimLoop(asyncio.BaseEventLoop):
    _closed = True  # half-constructed copies (see __reduce_ex__) count as closed for BaseEventLoop.__del__

    def __reduce_ex__(self, protocol):
        # like a real selector event loop (which holds locks and an epoll object), the loop cannot be copied or pickled
        raise TypeError("cannot pickle 'SimLoop' object")

    def __init__(self, max_ticks=20000):
        super().__init__()
        self._vclock = 0.0
        self._clock_resolution = 1e-9
        self.tick = 0  # number of handles run so far
        self.depth = 0  # nesting depth of handle execution (0 = between handles at top level)
        self.hooks = None  # object with before_handle(loop) / after_handle(loop)
        self.max_ticks = max_ticks
        self.exc_contexts = []  # contexts passed to call_exception_handler
        self.gc_contexts = 0  # garbage-collection-timed reports (never used by an oracle)
        self.timers_fired = 0
        self.eager_loop_thread = False  # see _race_loop_thread
        self._racing = False
        self.races_run = 0
        self.created_tasks = []  # every task created on this loop (to look for exceptions nobody retrieved)
        self.foreign_depth = 0  # > 0 while code runs that, in production, runs in the communicator's thread
        self.thread_violations = []  # non-thread-safe scheduling calls made from such code
        self.set_exception_handler(SimLoop._record_exception)

    # -- seams -----------------------------------------------------------------------------
    def time(self):
        return self._vclock

    def _process_events(self, event_list):  # pragma: no cover - no selector
        pass

    def _write_to_self(self):
        pass

    def _record_exception(self, context):
        message = context.get('message', '')
        if 'never retrieved' in message or 'was destroyed but it is pending' in message:
            self.gc_contexts += 1
            return
        self.exc_contexts.append(context)

    # -- "foreign thread" emulation -----------------------------------------------------------
    # There are no threads in the simulation, but some code does run in another thread in production: the subscriber
    # callbacks of a process registered directly with a (threaded) communicator.  While such code runs the loop is in
    # "foreign" mode and does what asyncio's debug mode does: scheduling through the non-thread-safe entry points
    # (call_soon / call_later / call_at, hence create_task and ensure_future) is recorded as a violation - from another
    # thread only call_soon_threadsafe (run_coroutine_threadsafe) reliably wakes the loop up.
    class _Foreign:
        def __init__(self, loop):
            self.loop = loop

        def __enter__(self):
            self.loop.foreign_depth += 1
            FOREIGN[0] += 1
            # another thread has no running loop (and no current one: see seams, get_event_loop raises meanwhile)
            self.saved_running = events._get_running_loop()
            events._set_running_loop(None)

        def __exit__(self, *exc):
            events._set_running_loop(self.saved_running)
            FOREIGN[0] -= 1
            self.loop.foreign_depth -= 1

    def foreign_thread(self):
        return SimLoop._Foreign(self)

    def _note_unsafe(self, what, callback):
        if self.foreign_depth > 0:
            name = getattr(callback, '__qualname__', None) or repr(callback)
            self.thread_violations.append(f'{what}({name})')

    def call_soon(self, callback, *args, context=None):
        self._note_unsafe('call_soon', callback)
        return super().call_soon(callback, *args, context=context)

    def call_at(self, when, callback, *args, context=None):
        self._note_unsafe('call_at', callback)
        return super().call_at(when, callback, *args, context=context)

    def call_soon_threadsafe(self, callback, *args, context=None):
        depth, self.foreign_depth = self.foreign_depth, 0
        try:
            handle = super().call_soon_threadsafe(callback, *args, context=context)
        finally:
            self.foreign_depth = depth
        if depth > 0 and self.eager_loop_thread and not self._racing:
            self._race_loop_thread()
        return handle

    def _race_loop_thread(self):
        """call_soon_threadsafe wakes the loop's thread up, and that thread may well run what was handed to it (and whatever
        that makes ready) BEFORE the calling thread executes its next statement.  With ``eager_loop_thread`` set (a per-case,
        seeded choice) the simulator takes that branch of the race: everything that is ready runs now, in the loop's own
        context, then the 'communicator thread' continues."""
        saved = (FOREIGN[0], self.foreign_depth, events._get_running_loop(), self.hooks)
        FOREIGN[0], self.foreign_depth, self.hooks, self._racing = 0, 0, None, True
        events._set_running_loop(self)
        try:
            for _ in range(64):
                if not self._ready:
                    break
                self.races_run += 1
                self.step_once()
        finally:
            FOREIGN[0], self.foreign_depth, running, self.hooks = saved
            events._set_running_loop(running)
            self._racing = False

    def create_task(self, coro, **kwargs):
        task = super().create_task(coro, **kwargs)
        self.created_tasks.append(task)
        return task

    def unretrieved_task_exceptions(self):
        """Exceptions of finished tasks that nobody has looked at: what asyncio reports as 'Task exception was never
        retrieved' when the task is garbage collected - read here deterministically instead of at collection time."""
        out = []
        for task in self.created_tasks:
            if task.done() and not task.cancelled() and getattr(task, '_exception', None) is not None \
                    and getattr(task, '_log_traceback', False):
                out.append((task, task._exception))
        return out

    # -- stepping --------------------------------------------------------------------------
    def runnable(self):
        """True if a handle could run now or at some later virtual time."""
        if self._ready:
            return True
        sched = self._scheduled
        while sched and sched[0]._cancelled:
            self._timer_cancelled_count -= 1
            handle = heapq.heappop(sched)
            handle._scheduled = False
        return bool(sched)

    def step_once(self):
        """Run exactly one handle.  Returns False (and does nothing) when the loop is quiescent."""
        if not self.runnable():
            return False
        sched = self._scheduled
        if not self._ready:
            when = sched[0]._when
            if when > self._vclock:
                self._vclock = when
        end_time = self._vclock + self._clock_resolution
        while sched and sched[0]._when < end_time:
            handle = heapq.heappop(sched)
            handle._scheduled = False
            if not handle._cancelled:
                self.timers_fired += 1
                self._ready.append(handle)
            else:
                self._timer_cancelled_count -= 1
        if not self._ready:
            return self.runnable() and self.step_once()

        hooks = self.hooks
        if hooks is not None:
            hooks.before_handle(self)
            if not self._ready:
                return True

        handle = self._ready.popleft()
        if handle._cancelled:
            return True
        if self.tick >= self.max_ticks:
            raise TickLimit(f'more than {self.max_ticks} handles in one run')
        self.tick += 1
        current = tasks._current_tasks.pop(self, None)
        self.depth += 1
        try:
            handle._run()
        finally:
            self.depth -= 1
            if current is not None:
                tasks._current_tasks[self] = current
        handle = None
        if hooks is not None:
            hooks.after_handle(self)
        return True

    # -- running ---------------------------------------------------------------------------
    class _Running:
        def __init__(self, loop):
            self.loop = loop

        def __enter__(self):
            loop = self.loop
            loop._check_closed()
            self.old_thread = loop._thread_id
            self.old_loop = events._get_running_loop()
            loop._thread_id = 1
            events._set_running_loop(loop)

        def __exit__(self, *exc):
            loop = self.loop
            loop._thread_id = self.old_thread
            events._set_running_loop(self.old_loop)

    def running(self):
        """Context manager: mark this loop as the running loop (as run_forever would)."""
        return SimLoop._Running(self)

    def run_until_quiescent(self):
        with self.running():
            while self.step_once():
                pass

    def run_forever(self):
        with self.running():
            while True:
                if not self.step_once() or self._stopping:
                    break
        self._stopping = False

    def run_until_complete(self, future):
        with self.running():
            fut = asyncio.ensure_future(future, loop=self)
            if fut is not future:
                fut._log_destroy_pending = False
            while not fut.done():
                if not self.step_once():
                    raise NestedDeadlock('run_until_complete: nothing runnable and the future is not done')
            return fut.result()

    def _check_running(self):
        pass

    def close(self):
        self._ready.clear()
        self._scheduled.clear()
        if not self.is_closed():
            self._thread_id = None
            try:
                super().close()
            except Exception:  # pragma: no cover
                pass

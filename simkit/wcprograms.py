# -*- coding: utf-8 -*-
"""WorkChain programs as data and their builder.

    program := {kind: 'workchain', outline: [node...], steps: {name: stepspec}, preds: {name: [bool...]},
                children: [process program...]}
    node    := ['s', name] | ['if', [[pred, [node...]]...], [node...]|None] | ['while', pred, [node...]] | ['ret', code|None]
    stepspec:= {effects: [effect...], ret: None | {t: value, v} | {t: tocontext, items: {key: aref}}}
    effect  := {e: out|status ...} | {e: toctx, key, ref: aref} | {e: ctxset, key, v}
    aref    := {fut: id}   a bare future the step creates (the environment completes it)
             | {child: j}  a child process launched with self.launch(children[j])

Predicates read their scripted truth values through a counter kept in the (persisted) context, steps
append their name to a (persisted) context list: everything depends on persisted state only.
"""
import asyncio

from . import generated, programs
from .programs import freeze, label

INTERNAL_CTX = ('simpc', 'simtrace')


def ctx_view(workchain):
    return {k: freeze(v) for k, v in sorted(workchain.ctx.__dict__.items()) if k not in INTERNAL_CTX}


def _ensure_ctx(workchain):
    if not hasattr(workchain.ctx, 'simpc'):
        workchain.ctx.simpc = {}
    if not hasattr(workchain.ctx, 'simtrace'):
        workchain.ctx.simtrace = []


def _launch_child(workchain, world, index):
    child_cls = workchain.__class__._children[index]
    child = workchain.launch(child_cls)
    child._sim_label = f'c{index}.{len(world.children)}'
    world.children.append(child)
    world.parent_of[id(child)] = workchain
    world.child_by_index.setdefault(index, []).append(child)
    world.rec('launch', label(workchain), child._sim_label)
    return child


def _resolve_aref(workchain, world, aref, plumpy):
    if 'fut' in aref:
        future = asyncio.Future()
        world.futures[aref['fut']] = future
        world.rec('mkfut', label(workchain), aref['fut'])
        pre = aref.get('pre')
        if pre == 'value':
            future.set_result(aref.get('v'))  # already complete when it is handed to the context
        elif pre == 'exc':
            exc = programs.ProgramError(f"future {aref['fut']} failed before it was awaited")
            world.program_errors.append(exc)
            world.awaitable_errors[aref['fut']] = exc
            future.set_exception(exc)
        return future
    if 'child_ref' in aref:
        children = world.child_by_index.get(aref['child_ref'])
        return children[-1] if children else _launch_child(workchain, world, aref['child_ref'])
    return _launch_child(workchain, world, aref['child'])


def _make_wc_step(name, spec, world, plumpy):
    def fn(self):
        _ensure_ctx(self)
        pending = sorted(f'fut{k}' for k, f in world.futures.items() if not f.done())
        pending += sorted(label(c) for c in world.children if not c.has_terminated())
        world.rec('wstep', label(self), name, ctx_view(self), self.paused, self.status,
                  programs.current_is(self, plumpy), pending)
        self.ctx.simtrace.append(name)
        world.site(self, f'step:{name}')
        awaited = {}
        for eff in spec.get('effects') or []:
            kind = eff['e']
            if kind == 'toctx':
                awaitable = _resolve_aref(self, world, eff['ref'], plumpy)
                awaited[eff['key']] = awaitable
                self.to_context(**{eff['key']: awaitable})
            elif kind == 'launchonly':
                _launch_child(self, world, eff['child'])
            elif kind == 'ctxset':
                self.ctx[eff['key']] = __import__('copy').deepcopy(eff['v'])
            elif kind == 'ctxalias':
                # two context entries refer to the very same object
                if hasattr(self.ctx, eff['src']):
                    self.ctx[eff['dst']] = self.ctx[eff['src']]
            elif kind == 'ctxappend':
                # in-place mutation of a context value (visible through every alias of it)
                target = getattr(self.ctx, eff['key'], None)
                if isinstance(target, list):
                    target.append(eff['v'])
                elif isinstance(target, dict):
                    target[str(eff['v'])] = eff['v']
            else:
                programs._do_effect(self, world, eff, plumpy)
        ret = spec.get('ret')
        if ret is None:
            return None
        if ret['t'] == 'value':
            return ret['v']
        if ret['t'] == 'tocontext':
            items = {}
            for key, aref in ret['items'].items():
                items[key] = _resolve_aref(self, world, aref, plumpy)
            if ret.get('cls') == 'ordered':
                import collections

                return collections.OrderedDict(items)  # any mapping of the dict family is a context assignment
            return plumpy.ToContext(**items)
        if ret['t'] == 'raise':
            exc = programs.ProgramError(ret.get('msg', 'boom'))
            world.program_errors.append(exc)
            world.rec('raise', label(self), ret.get('msg', 'boom'))
            raise exc
        raise ValueError(ret)

    fn.__name__ = name
    fn.__qualname__ = name
    return fn


def _make_pred(name, script, world):
    def fn(self):
        _ensure_ctx(self)
        count = self.ctx.simpc.get(name, 0)
        self.ctx.simpc[name] = count + 1
        value = bool(script[count]) if count < len(script) else False
        world.rec('pred', label(self), name, value)
        self.ctx.simtrace.append(f'?{name}={int(value)}')
        world.site(self, f'pred:{name}')
        return value

    fn.__name__ = name
    fn.__qualname__ = name
    return fn


def _build_outline(nodes, namespace, plumpy):
    out = []
    for node in nodes:
        kind = node[0]
        if kind == 's':
            out.append(namespace[node[1]])
        elif kind == 'if':
            branches, else_body = node[1], node[2]
            instruction = plumpy.if_(namespace[branches[0][0]])(*_build_outline(branches[0][1], namespace, plumpy))
            for pred, body in branches[1:]:
                instruction = instruction.elif_(namespace[pred])(*_build_outline(body, namespace, plumpy))
            if else_body is not None:
                instruction = instruction.else_(*_build_outline(else_body, namespace, plumpy))
            out.append(instruction)
        elif kind == 'while':
            out.append(plumpy.while_(namespace[node[1]])(*_build_outline(node[2], namespace, plumpy)))
        elif kind == 'ret':
            out.append(plumpy.return_ if node[1] is None else plumpy.return_(node[1]))
        else:
            raise ValueError(node)
    return out


_serial = [0]


def build_workchain_class(program, world, plumpy, hooks=False):
    namespace = {}
    for name, spec in program['steps'].items():
        namespace[name] = _make_wc_step(name, spec, world, plumpy)
    for name, script in (program.get('preds') or {}).items():
        namespace[name] = _make_pred(name, script, world)

    holders = []
    if hooks:
        for hook_name in programs.HOOK_NAMES:
            fn, holder = programs._make_hook(hook_name, world, plumpy.WorkChain)
            namespace[hook_name] = fn
            holders.append(holder)

    cls_ref = [None]
    outline_nodes = program['outline']

    def define(cls, spec):
        super(cls_ref[0], cls).define(spec)
        spec.inputs.dynamic = True
        spec.outputs.dynamic = True
        spec.outline(*_build_outline(outline_nodes, {k: getattr(cls, k) for k in namespace if k not in programs.HOOK_NAMES}, plumpy))

    namespace['define'] = classmethod(define)

    def kill(self, msg_text=None):
        world.rec('call', label(self), 'kill', msg_text, not self.has_terminated())
        return super(cls_ref[0], self).kill(msg_text)

    def pause(self, msg_text=None):
        world.rec('call', label(self), 'pause', msg_text, not self.has_terminated())
        return super(cls_ref[0], self).pause(msg_text)

    def play(self):
        world.rec('call', label(self), 'play', None, not self.has_terminated())
        return super(cls_ref[0], self).play()

    namespace.update(kill=kill, pause=pause, play=play)

    _serial[0] += 1
    name = f'GenWorkChain{_serial[0]}'
    cls = type(plumpy.WorkChain)(name, (plumpy.WorkChain,), namespace)
    cls_ref[0] = cls
    for holder in holders:
        holder[0] = cls
    cls._world = world
    cls._program = program
    cls._children = [programs.build_process_class(child, world, plumpy, hooks=False, record_calls=True)
                     for child in program.get('children') or []]
    generated.register(cls, name)
    return cls


# ---------------------------------------------------------------------------------------------
# model: the structured program the outline denotes


class _Return(Exception):
    def __init__(self, code):
        self.code = code


def model_outline(program):
    """Expected call order (steps and predicates) and result of a workchain WITHOUT awaitables."""
    counters = {}
    trace = []
    preds = program.get('preds') or {}
    steps = program['steps']

    class _Stop(Exception):
        def __init__(self, value):
            self.value = value

    def pred(name):
        count = counters.get(name, 0)
        counters[name] = count + 1
        script = preds[name]
        value = bool(script[count]) if count < len(script) else False
        trace.append(f'?{name}={int(value)}')
        return value

    last = [None]

    def run_block(nodes):
        for node in nodes:
            kind = node[0]
            if kind == 's':
                trace.append(node[1])
                ret = steps[node[1]].get('ret')
                if ret is not None and ret['t'] == 'value' and ret['v'] is not None:
                    raise _Stop(ret['v'])
                if ret is not None and ret['t'] == 'raise':
                    raise _Stop(('raise', ret.get('msg', 'boom')))
                last[0] = None
            elif kind == 'if':
                for predicate, body in node[1]:
                    if pred(predicate):
                        run_block(body)
                        break
                else:
                    if node[2] is not None:
                        run_block(node[2])
            elif kind == 'while':
                guard = 0
                while pred(node[1]):
                    run_block(node[2])
                    guard += 1
                    if guard > 50:
                        raise ValueError('loop does not terminate')
            elif kind == 'ret':
                raise _Return(node[1])

    try:
        run_block(program['outline'])
        result = None
    except _Return as ret:
        result = ret.code
    except _Stop as stop:
        result = stop.value
    return {'trace': trace, 'result': result}


# ---------------------------------------------------------------------------------------------
# generators


def gen_outline(rng, cfg=None):
    """Random outline without awaitables (for restart checks): steps, if/elif/else, while, return."""
    cfg = cfg or {}
    steps = {}
    preds = {}
    counter = [0, 0]

    def new_step(ret=None):
        counter[0] += 1
        name = f'w{counter[0]}'
        effects = []
        if rng.random() < 0.4:
            effects.append({'e': 'ctxset', 'key': rng.choice(['a', 'b', 'c', '_private']), 'v': programs.gen_value(rng)})
        if cfg.get('aliasing', True) and rng.random() < 0.2:
            effects.append({'e': 'ctxset', 'key': 'lst', 'v': [counter[0]]})
            effects.append({'e': 'ctxalias', 'src': 'lst', 'dst': 'same'})
        if cfg.get('aliasing', True) and rng.random() < 0.3:
            effects.append({'e': 'ctxappend', 'key': rng.choice(['lst', 'same']), 'v': counter[0]})
        if rng.random() < 0.25:
            effects.append({'e': 'out', 'k': rng.choice(['o1', 'ns.o2']), 'v': programs.gen_value(rng)})
        if rng.random() < 0.15:
            effects.append({'e': 'status', 'v': rng.choice(['s1', 's2'])})
        steps[name] = {'effects': effects, 'ret': ret}
        return name

    def new_pred(kind):
        counter[1] += 1
        name = f'q{counter[1]}'
        if kind == 'while':
            script = [True] * rng.choice([0, 1, 1, 2, 3]) + [False]
            if rng.random() < 0.3:
                script = script + [True, False]  # re-entered loops (outer loop iterations) see further values
        else:
            script = [rng.random() < 0.5 for _ in range(rng.randint(1, 4))]
        preds[name] = script
        return name

    def block(depth, max_len):
        nodes = []
        for _ in range(rng.randint(1, max_len)):
            roll = rng.random()
            if depth < cfg.get('max_depth', 3) and roll < 0.22:
                branches = [[new_pred('if'), block(depth + 1, 2)]]
                for _ in range(rng.choice([0, 0, 1, 2])):
                    branches.append([new_pred('if'), block(depth + 1, 2)])
                else_body = block(depth + 1, 2) if rng.random() < 0.5 else None
                nodes.append(['if', branches, else_body])
            elif depth < cfg.get('max_depth', 3) and roll < 0.38:
                nodes.append(['while', new_pred('while'), block(depth + 1, 2)])
            elif roll < 0.44 and depth > 0:
                nodes.append(['ret', rng.choice([None, 0, 3, 418])])
            elif roll < 0.49:
                nodes.append(['s', new_step({'t': 'value', 'v': rng.choice([0, 5, 'early', False])})])
            else:
                nodes.append(['s', new_step(None)])
        return nodes

    outline = block(0, cfg.get('max_len', 4))
    return {'kind': 'workchain', 'outline': outline, 'steps': steps, 'preds': preds, 'children': []}
